(* C03 -- Every complete expansion strategy finds exactly the minimal trap spaces

   Proved for BFS and DFS completion from any diagram reachable by plain operations (bfs_complete /
   dfs_complete need only the invariants that run_invariants establishes).  PARTIAL: for minimal-space,
   attractor-seed, block, source-SCC expansion and completion by skipping, the statement is decided by the
   correspondence run (model expand_min / skip_remaining vs code) plus the comparison of
   minimal_trap_spaces() with Brute.min_traps_b, whose exactness is min_traps_b_spec.

   This file contains only restatements closed by `exact` (statements produced by Coq's own
   `Check` of the library lemma) plus non-vacuity Examples, each followed by Print Assumptions. *)
From Coq Require Import List Bool Arith NArith Lia Relations Permutation.
Import ListNotations.
From BB Require Import BN Brute SpaceFacts TrapFacts PercolateFacts AttractorFacts Diagram Invariants Checks Filter
  Strict PetriNet Control Meta FilterFacts PetriNetFacts TrappistFacts DiagramStruct DiagramSem1 DiagramCache
  DiagramDepth DiagramComplete Termination ControlFacts MetaFacts.

Theorem C03_bfs_complete : forall (fuel : nat) (N : net) (cfg : config) (d d' : sd), 1 <= max_motifs cfg -> SWF N d -> NoStubEdges d -> EdgeStrict d -> Rooted d -> expand_bfs fuel N cfg d None None None = (d', RBool true) -> AllExpanded d'.
Proof. exact bfs_complete. Qed.

Theorem C03_dfs_complete : forall (fuel : nat) (N : net) (cfg : config) (d d' : sd), 1 <= max_motifs cfg -> SWF N d -> NoStubEdges d -> EdgeStrict d -> Rooted d -> expand_dfs fuel N cfg d None None None = (d', RBool true) -> AllExpanded d'.
Proof. exact dfs_complete. Qed.

Theorem C03_leaves_are_min_traps : forall (N : net) (d : sd) (M : space), Hierarchy N d -> (exists i : nat, i < size d /\ is_minimal d i = true /\ n_space (get d i) = M) <-> min_trap N M.
Proof. exact hierarchy_leaves. Qed.

(* the oracle for minimal trap spaces is exact *)
Theorem C03_min_traps_spec : forall (N : net) (S : list (option bool)) (M : space), length S = nvars N -> In M (min_traps_b N S) <-> min_trap N M /\ subspace M S = true.
Proof. exact min_traps_b_spec. Qed.

Theorem C03_min_trap_exists : forall (N : net) (S : space), trap_space N S -> exists M : space, min_trap N M /\ subspace M S = true.
Proof. exact min_trap_exists. Qed.

Theorem C03_min_trap_closed : forall (N : net) (M : space), min_trap N M -> percolate_b N M = M.
Proof. exact min_trap_closed. Qed.

(* why the source shortcut at the root loses no minimal trap space *)
Theorem C03_min_trap_fixes_sources : forall (N : net) (M : space) (i : nat), min_trap N M -> i < nvars N -> is_source_b N i = true -> nth i M None <> None.
Proof. exact min_trap_fixes_sources. Qed.

Theorem C03_invariants_along_histories : forall (fuel : nat) (N : net) (cfg : config) (h : list op) (d : sd) (r : result), 1 <= max_motifs cfg -> Forall plain h -> In (d, r) (run fuel N cfg (init N) h) -> SWF N d /\ TrapNodes N d /\ EdgeStrict d /\ NoStubEdges d /\ Rooted d /\ Faithful N d.
Proof. exact run_invariants. Qed.

(* non-vacuity: two bistable switches; x0'=x1, x1'=x0, x2'=x3, x3'=x2 *)
Definition ex_sw : net := [fun s => nth 1 s false; fun s => nth 0 s false; fun s => nth 3 s false; fun s => nth 2 s false].
Definition ex_cfg : config := {| max_motifs := 1000 |}.

Example C03_example : length (min_traps_b ex_sw (top_space 4)) = 4.
Proof. vm_compute. reflexivity. Qed.

Print Assumptions C03_bfs_complete.
Print Assumptions C03_dfs_complete.
Print Assumptions C03_leaves_are_min_traps.
Print Assumptions C03_min_traps_spec.
Print Assumptions C03_min_trap_exists.
Print Assumptions C03_min_trap_closed.
Print Assumptions C03_min_trap_fixes_sources.
Print Assumptions C03_invariants_along_histories.
