(* C03 -- Every complete expansion strategy finds exactly the minimal trap spaces

   Proved for BFS and DFS completion from any diagram reachable by plain operations (bfs_complete /
   dfs_complete need only the invariants that run_invariants establishes), for minimal-space expansion
   (expand_min_exact / expand_min_complete) and for completion by skip_remaining.  PARTIAL: for attractor-seed,
   block and source-SCC expansion the statement is decided by the correspondence run (models ASeeds.v /
   Blocks.v replayed against the code) plus the comparison of minimal_trap_spaces() with Brute.min_traps_b,
   whose exactness is min_traps_b_spec.

   This file contains only restatements closed by `exact` (statements produced by Coq's own
   `Check` of the library lemma) plus non-vacuity Examples, each followed by Print Assumptions. *)
From Coq Require Import List Bool Arith NArith Lia Relations Permutation.
Import ListNotations.
From BB Require Import BN Brute SpaceFacts TrapFacts PercolateFacts AttractorFacts Diagram Invariants Checks Filter
  Strict PetriNet Control Meta FilterFacts PetriNetFacts TrappistFacts DiagramStruct DiagramSem1 DiagramCache
  DiagramDepth DiagramComplete Termination ControlFacts MetaFacts Candidates StrictFacts MinExpandFacts CandidatesFacts SymbolicTest SymbolicTestFacts Signed ReductionFacts ControlFacts2 Main Blocks BlocksFacts ObsFacts OwnerFacts CandidatesTerm.

Theorem C03_bfs_complete : forall (fuel : nat) (N : net) (cfg : config) (d d' : sd), 1 <= max_motifs cfg -> SWF N d -> NoStubEdges d -> EdgeStrict d -> Rooted d -> expand_bfs fuel N cfg d None None None = (d', RBool true) -> AllExpanded d'.
Proof. exact bfs_complete. Qed.

Theorem C03_dfs_complete : forall (fuel : nat) (N : net) (cfg : config) (d d' : sd), 1 <= max_motifs cfg -> SWF N d -> NoStubEdges d -> EdgeStrict d -> Rooted d -> expand_dfs fuel N cfg d None None None = (d', RBool true) -> AllExpanded d'.
Proof. exact dfs_complete. Qed.

Theorem C03_leaves_are_min_traps : forall (N : net) (d : sd) (M : space), Hierarchy N d -> (exists i : nat, i < size d /\ is_minimal d i = true /\ n_space (get d i) = M) <-> min_trap N M.
Proof. exact hierarchy_leaves. Qed.

(* the oracle for minimal trap spaces is exact *)
Theorem C03_min_traps_spec : forall (N : net) (S : list (option bool)) (M : space), length S = nvars N -> In M (min_traps_b N S) <-> min_trap N M /\ subspace M S = true.
Proof. exact min_traps_b_spec. Qed.

Theorem C03_min_trap_exists : forall (N : net) (S : space), trap_space N S -> exists M : space, min_trap N M /\ subspace M S = true.
Proof. exact min_trap_exists. Qed.

Theorem C03_min_trap_closed : forall (N : net) (M : space), min_trap N M -> percolate_b N M = M.
Proof. exact min_trap_closed. Qed.

(* why the source shortcut at the root loses no minimal trap space *)
Theorem C03_min_trap_fixes_sources : forall (N : net) (M : space) (i : nat), min_trap N M -> i < nvars N -> is_source_b N i = true -> nth i M None <> None.
Proof. exact min_trap_fixes_sources. Qed.

Theorem C03_invariants_along_histories : forall (fuel : nat) (N : net) (cfg : config) (h : list op) (d : sd) (r : result), 1 <= max_motifs cfg -> Forall plain h -> In (d, r) (run fuel N cfg (init N) h) -> SWF N d /\ TrapNodes N d /\ EdgeStrict d /\ NoStubEdges d /\ Rooted d /\ Faithful N d.
Proof. exact run_invariants. Qed.

(* minimal-space expansion (with or without skip_ignored) from a fresh diagram: leaves = minimal trap spaces *)
Theorem C03_minimal_space_expansion_exact : forall (fuel : nat) (N : net) (cfg : config) (d' : sd) (skip : bool) (tape : list space), 1 <= max_motifs cfg -> expand_min fuel N cfg (init N) None None skip tape = (d', RBool true) -> LeafOK N d' /\ MinFound N d'.
Proof. exact expand_min_exact. Qed.

(* ... and from any diagram satisfying the invariants *)
Theorem C03_minimal_space_expansion_complete : forall (fuel : nat) (N : net) (cfg : config) (d d' : sd) (skip : bool) (tape : list space), 1 <= max_motifs cfg -> SWF N d -> TrapNodes N d -> NoStubEdges d -> EdgeStrict d -> Faithful N d -> n_space (get d 0) = percolate_b N (top_space (nvars N)) -> expand_min fuel N cfg d None None skip tape = (d', RBool true) -> MinFound N d'.
Proof. exact expand_min_complete. Qed.

(* completion of an early-stopped diagram by skip_remaining *)
Theorem C03_skip_remaining_exact : forall (N : net) (d d' : sd) (tape : list space) (k : nat), SWF N d -> TrapNodes N d -> NoStubEdges d -> EdgeStrict d -> LeafOK N d -> n_space (get d 0) = percolate_b N (top_space (nvars N)) -> skip_remaining N d tape = (d', RNat k) -> LeafOK N d' /\ MinFound N d' /\ AllExpanded d'.
Proof. exact skip_remaining_exact. Qed.

(* in every reachable diagram (any history) an expanded node without successors is a minimal trap space *)
Theorem C03_leaves_always_minimal : forall (fuel : nat) (N : net) (cfg : config) (h : list op) (d : sd) (r : result), 1 <= max_motifs cfg -> In (d, r) (run fuel N cfg (init N) h) -> LeafOK N d.
Proof. exact run_LeafOK. Qed.

Theorem C03_no_duplicates : forall (N : net) (d : sd) (i j : nat), SWF N d -> i < size d -> j < size d -> n_space (get d i) = n_space (get d j) -> i = j.
Proof. exact minimal_nodes_unique. Qed.

(* source-block expansion (model Blocks.v, replayed against the code): every leaf is a minimal trap space *)
Theorem C03_block_expansion_leaves_minimal : forall (fuel : nat) (N : net) (cfg : config) (d : sd) (maa opt : bool) (sz : option nat) (tape : list bool), 1 <= max_motifs cfg -> SWF N d -> TrapNodes N d -> NoStubEdges d -> LeafOK N d -> LeafOK N (fst (expand_block fuel N cfg d maa opt sz tape)).
Proof. exact expand_block_LeafOK_strong. Qed.

(* non-vacuity: two bistable switches; x0'=x1, x1'=x0, x2'=x3, x3'=x2 *)
Definition ex_sw : net := [fun s => nth 1 s false; fun s => nth 0 s false; fun s => nth 3 s false; fun s => nth 2 s false].
Definition ex_cfg : config := {| max_motifs := 1000 |}.

Example C03_example : length (min_traps_b ex_sw (top_space 4)) = 4.
Proof. vm_compute. reflexivity. Qed.

Print Assumptions C03_bfs_complete.
Print Assumptions C03_dfs_complete.
Print Assumptions C03_leaves_are_min_traps.
Print Assumptions C03_min_traps_spec.
Print Assumptions C03_min_trap_exists.
Print Assumptions C03_min_trap_closed.
Print Assumptions C03_min_trap_fixes_sources.
Print Assumptions C03_invariants_along_histories.
Print Assumptions C03_minimal_space_expansion_exact.
Print Assumptions C03_minimal_space_expansion_complete.
Print Assumptions C03_skip_remaining_exact.
Print Assumptions C03_leaves_always_minimal.
Print Assumptions C03_no_duplicates.
Print Assumptions C03_block_expansion_leaves_minimal.
