(* C03 -- Every complete expansion strategy finds exactly the minimal trap spaces

   Proved for BFS and DFS completion from any diagram reachable by plain operations (bfs_complete /
   dfs_complete need only the invariants that run_invariants establishes), for minimal-space expansion
   (expand_min_exact / expand_min_complete), for completion by skip_remaining, for source-block expansion from a fresh
   diagram with every option combination and ANY tape (expand_block_MinFound: independence of minimal source blocks,
   BlockMath.min_trap_in_block / same_child_same_block) and for attractor-seed expansion from any plainly reached diagram
   (expand_aseeds_MinFound).  The source-SCC strategy is modelled (SCC.v, replayed id by id): its components are the closed,
   strongly connected, pairwise disjoint sets of source_sccs_spec, every node it creates is a trap space of the network
   (graft_trap, expand_scc_TrapNodes), it only adds nodes (expand_scc_grows), and from a fresh diagram a run reporting completion
   leaves every node expanded with the expanded leaves being exactly the minimal trap spaces (expand_scc_AllExpanded,
   expand_scc_LeafOK, expand_scc_MinFound) -- although the diagram it builds is not faithful (D15).  So every strategy of the
   statement has a theorem.

   This file contains only restatements closed by `exact` (statements produced by Coq's own
   `Check` of the library lemma) plus non-vacuity Examples, each followed by Print Assumptions. *)
From Coq Require Import List Bool Arith NArith Lia Relations Permutation.
Import ListNotations.
From BB Require Import BN Brute SpaceFacts TrapFacts PercolateFacts AttractorFacts Diagram Invariants Checks Filter
  Strict PetriNet Control Meta FilterFacts PetriNetFacts TrappistFacts DiagramStruct DiagramSem1 DiagramCache
  DiagramDepth DiagramComplete Termination ControlFacts MetaFacts Candidates StrictFacts MinExpandFacts CandidatesFacts SymbolicTest SymbolicTestFacts Signed ReductionFacts ControlFacts2 Main Blocks BlocksFacts ObsFacts OwnerFacts CandidatesTerm
  PartialOwner BlockMath BlockComplete ASeeds ASeedsFacts LogChecks SkipRule SkipRuleFacts Names NamesFacts Perm PermFacts SCC SCCFacts SCCStruct ControlFacts3 SCCTerm FilterSym Main2 StrategyFacts ControlFacts4 SkipRuleFacts2 SCCComplete SCCAttr BlockComplete2 ControlFacts5 Iso SkipSem ControlFacts6.
From BB Require Import PyLib PyLibSd PySrcSdBase PySrcSd PySrcSdFacts PyLib PyLibSd PyLibCore PyLibSd2 PySrcSdBase PySrcSdMin PySrcSdMinFacts Candidates Blocks ASeeds PySrcSdASeeds PySrcSdASeedsFacts PySrcComplFacts PyLib PyLibSd PyLibCore PyLibSd2 PyLibScc PySrcSdBase PySrcSdScc PySrcSdSccFacts Control PyLibControl PySrcSdSccMain PySrcSdSccMainFacts PyLibBlocks PySrcSdBlocks PySrcSdBlocksFacts PySrcApi PySrcEndToEndScc PySrcEndToEndBlocks PyLib PyLibCore PySrcCore PySrcCoreFacts PySrcGetters PySrcGettersFacts.

(* translator tie: the function GENERATED from the current text of expand_source_SCCs.expand_source_SCCs (PySrcSdSccMain.v: root sources, BFS over the levels, recursion through the default expander into the sub-diagrams of the source SCCs, attachment by the generated attach_scc_subdiagram) does what the model's SCC.scc_main does on every diagram satisfying SCCTerm.SI, for every fuel, tape and nesting depth *)
Theorem C03_source_expand_source_SCCs : forall (fuel : nat) (N : net) (cfg : config) (check_maa : bool) (d : sd) (tape : tape_t) (rec : nat), 1 <= max_motifs cfg -> SI N d -> let '(d', r, tape') := scc_main fuel N cfg check_maa d tape in scc_outcome (py_expand_source_SCCs fuel N cfg d tape check_maa rec) d' r tape'.
Proof. exact py_expand_source_SCCs_spec. Qed.

Theorem C03_source_expand_source_SCCs_fresh : forall (fuel : nat) (N : net) (cfg : config) (check_maa : bool) (tape : tape_t), 1 <= max_motifs cfg -> let '(d', r, tape') := scc_main fuel N cfg check_maa (init N) tape in scc_outcome (py_expand_source_SCCs fuel N cfg (init N) tape check_maa 0) d' r tape'.
Proof. exact py_expand_source_SCCs_fresh. Qed.

(* translator tie for the DEFAULT strategy: the function GENERATED from the current text of expand_source_blocks.expand_source_blocks (PySrcSdBlocks.v: level loop with the visited set, size limits, source fast-forward, grouping of successors into blocks, minimal blocks, stable sort, clean-block search reading the is_clean tape) returns the diagram and result of the model's Blocks.expand_block on every well-formed diagram, for every fuel, option combination and tape *)
Theorem C03_source_expand_source_blocks : forall (fuel : nat) (N : net) (cfg : config) (d : sd) (tape : list bool) (check_maa : bool) (size_limit : option nat) (opt_src exact : bool), SWF N d -> let '(d', r) := expand_block fuel N cfg d check_maa opt_src size_limit tape in blk_outcome (py_expand_source_blocks fuel N cfg d tape check_maa size_limit opt_src exact) d' r.
Proof. exact py_expand_source_blocks_spec. Qed.

Theorem C03_source_expand_source_blocks_fresh : forall (fuel : nat) (N : net) (cfg : config) (tape : list bool) (check_maa : bool) (size_limit : option nat) (opt_src exact : bool), let '(d', r) := expand_block fuel N cfg (init N) check_maa opt_src size_limit tape in blk_outcome (py_expand_source_blocks fuel N cfg (init N) tape check_maa size_limit opt_src exact) d' r.
Proof. exact py_expand_source_blocks_fresh. Qed.

Theorem C03_source_public_expand_block : forall (fuel : nat) (N : net) (cfg : config) (d : sd) (tape : list bool) (find_maa : bool) (size_limit : option nat) (opt_src exact : bool), SWF N d -> let '(d', r) := expand_block fuel N cfg d find_maa opt_src size_limit tape in blk_outcome (py_api_expand_block fuel N cfg d tape find_maa size_limit opt_src exact) d' r.
Proof. exact py_api_expand_block_spec. Qed.

(* C03 for the SOURCE TEXT of the default strategy: when the generated public method expand_block returns True (any options, any tape; fresh diagram or any plainly reached one), every minimal trap space is an expanded leaf *)
Theorem C03_source_text_expand_block_complete : forall (fuel : nat) (N : net) (cfg : config) (tape : list bool) (maa : bool) (sz : option nat) (opt exact : bool) (d' : sd) (t : list bool), 1 <= max_motifs cfg -> py_api_expand_block fuel N cfg (init N) tape maa sz opt exact = SRet d' (true, t) -> MinFound N d'.
Proof. exact py_api_expand_block_complete. Qed.

Theorem C03_source_text_expand_block_complete_from : forall (fuel : nat) (N : net) (cfg : config) (d : sd) (tape : list bool) (maa : bool) (sz : option nat) (opt exact : bool) (d' : sd) (t : list bool), 1 <= max_motifs cfg -> PlainInv N d -> py_api_expand_block fuel N cfg d tape maa sz opt exact = SRet d' (true, t) -> MinFound N d'.
Proof. exact py_api_expand_block_complete_from. Qed.

(* the OBSERVATION of C03: SuccessionDiagram.minimal_trap_spaces(), pinned to its current text (PySrcGetters.v; its condition is the generated node_is_minimal), returns the model's minimal_ids *)
Theorem C03_source_minimal_trap_spaces : forall (fuel : nat) (N : net) (cfg : config) (pnc : nat -> bool) (w : pyst), py_minimal_trap_spaces fuel N cfg pnc w = Some (minimal_ids (p_sd w)).
Proof. exact py_minimal_trap_spaces_spec. Qed.

(* C03 for the SOURCE TEXT of the source-SCC strategy: when the generated public method expand_scc returns True on a fresh diagram, every minimal trap space is an expanded leaf, every expanded leaf is a minimal trap space, and no stub is left *)
Theorem C03_source_text_expand_scc_complete : forall (fuel : nat) (N : net) (cfg : config) (maa : bool) (tape : list (option bool)) (d' : sd) (t : list (option bool)), 1 <= max_motifs cfg -> py_api_expand_scc fuel N cfg (init N) tape maa = SRet d' (true, t) -> MinFound N d' /\ LeafOK N d' /\ AllExpanded d'.
Proof. exact py_api_expand_scc_complete. Qed.

(* C03 for the SOURCE TEXT: when the generated public methods report completion, every minimal trap space is found / everything is expanded *)
Theorem C03_source_text_expand_minimal_spaces_complete : forall (fuel : nat) (N : net) (cfg : config) (d d' : sd) (skip : bool) (tape : list space), 1 <= max_motifs cfg -> SWF N d -> TrapNodes N d -> NoStubEdges d -> EdgeStrict d -> Faithful N d -> n_space (get d 0) = percolate_b N (top_space (nvars N)) -> perm_of tape (min_traps_b N (n_space (get d 0))) = true -> py_api_expand_minimal_spaces fuel N cfg d tape None None skip = (d', RBool true) -> MinFound N d'.
Proof. exact py_expand_minimal_spaces_complete. Qed.

Theorem C03_source_text_expand_attractor_seeds_complete : forall (fuel : nat) (N : net) (cfg : config) (d d' : sd) (sz : option nat) (min_tape : list space) (tape : list (list nat)), 1 <= max_motifs cfg -> PlainInv N d -> perm_of min_tape (min_traps_b N (n_space (get d 0))) = true -> py_api_expand_attractor_seeds fuel N cfg d min_tape tape sz = (d', RBool true) -> nfvs_log_ok N (expand_aseeds_log fuel N cfg d sz min_tape tape) -> MinFound N d'.
Proof. exact py_expand_attractor_seeds_MinFound. Qed.

Theorem C03_source_text_expand_bfs_complete : forall (fuel : nat) (N : net) (cfg : config) (d d' : sd), 1 <= max_motifs cfg -> SWF N d -> NoStubEdges d -> EdgeStrict d -> Rooted d -> py_api_expand_bfs fuel N cfg d None None None = (d', RBool true) -> AllExpanded d'.
Proof. exact py_expand_bfs_complete. Qed.

Theorem C03_source_text_expand_dfs_complete : forall (fuel : nat) (N : net) (cfg : config) (d d' : sd), 1 <= max_motifs cfg -> SWF N d -> NoStubEdges d -> EdgeStrict d -> Rooted d -> py_api_expand_dfs fuel N cfg d None None None = (d', RBool true) -> AllExpanded d'.
Proof. exact py_expand_dfs_complete. Qed.

(* translator tie: the function GENERATED from the current text of biobalm/_sd_algorithms/expand_minimal_spaces.py (with its nested make_skip_node; PySrcSdMin.v) equals the model's expand_min on every well-formed diagram, for every start node, limit, skip option and fuel, given the tape contract *)
Theorem C03_source_expand_minimal_spaces : forall (fuel : nat) (N : net) (cfg : config) (d : sd) (start size_limit : option nat) (skip : bool) (tape : list space), SWF N d -> TrapNodes N d -> EdgeStrict d -> start_of start < size d -> perm_of tape (min_traps_b N (n_space (get d (start_of start)))) = true -> py_expand_minimal_spaces fuel N cfg d tape start size_limit skip = expand_min fuel N cfg d start size_limit skip tape.
Proof. exact py_expand_minimal_spaces_spec. Qed.

Theorem C03_source_public_expand_minimal_spaces : forall (fuel : nat) (N : net) (cfg : config) (d : sd) (start size_limit : option nat) (skip : bool) (tape : list space), SWF N d -> TrapNodes N d -> EdgeStrict d -> start_of start < size d -> perm_of tape (min_traps_b N (n_space (get d (start_of start)))) = true -> py_api_expand_minimal_spaces fuel N cfg d tape start size_limit skip = expand_min fuel N cfg d start size_limit skip tape.
Proof. exact py_api_expand_minimal_spaces_spec. Qed.

(* translator tie: the function GENERATED from the current text of biobalm/_sd_algorithms/expand_attractor_seeds.py (PySrcSdASeeds.v: the initial minimal-space expansion, the DFS with the candidate query -- avoid sets, heuristic retained set, reduced-STG fixed points -- and the NFVS tape) equals the model's ASeeds.expand_aseeds *)
Theorem C03_source_expand_attractor_seeds : forall (fuel : nat) (N : net) (cfg : config) (d : sd) (size_limit : option nat) (min_tape : list space) (tape : list (list nat)), SWF N d -> TrapNodes N d -> EdgeStrict d -> perm_of min_tape (min_traps_b N (n_space (get d 0))) = true -> py_expand_attractor_seeds fuel N cfg d min_tape tape size_limit = expand_aseeds fuel N cfg d size_limit min_tape tape.
Proof. exact py_expand_attractor_seeds_spec. Qed.

Theorem C03_source_public_expand_attractor_seeds : forall (fuel : nat) (N : net) (cfg : config) (d : sd) (size_limit : option nat) (min_tape : list space) (tape : list (list nat)), SWF N d -> TrapNodes N d -> EdgeStrict d -> perm_of min_tape (min_traps_b N (n_space (get d 0))) = true -> py_api_expand_attractor_seeds fuel N cfg d min_tape tape size_limit = expand_aseeds fuel N cfg d size_limit min_tape tape.
Proof. exact py_api_expand_attractor_seeds_spec. Qed.

(* the nested make_skip_node on its own equals the model's make_skip_node when the node is expanded or its space is not one of the minimal trap spaces (always the case inside expand_minimal_spaces); without that condition the text asserts where the model adds a self-loop: py_make_skip_node_spec_counterexample *)
Theorem C03_source_make_skip_node : forall (N : net) (cfg : config) (d : sd) (i : nat) (all_min : list space), SWF N d -> TrapNodes N d -> EdgeStrict d -> i < size d -> (forall m : space, In m all_min -> min_trap N m) -> (n_exp (get d i) = false -> ~ In (n_space (get d i)) all_min) -> exists u : sflow unit unit, py_expand_minimal_spaces__make_skip_node N cfg d i all_min = u /\ (u = SRet (make_skip_node N d i all_min) Datatypes.tt \/ u = SNext (make_skip_node N d i all_min) Datatypes.tt).
Proof. exact py_make_skip_node_spec_weak. Qed.

Theorem C03_source_make_skip_node_counterexample : exists (N : net) (cfg : config) (d : sd) (i : nat) (all_min : list space), SWF N d /\ TrapNodes N d /\ EdgeStrict d /\ i < size d /\ (forall m : space, In m all_min -> min_trap N m) /\ ~ (exists u : sflow unit unit, py_expand_minimal_spaces__make_skip_node N cfg d i all_min = u /\ (u = SRet (make_skip_node N d i all_min) Datatypes.tt \/ u = SNext (make_skip_node N d i all_min) Datatypes.tt)).
Proof. exact py_make_skip_node_spec_counterexample. Qed.

(* translator tie: the function GENERATED from the current text of biobalm/_sd_algorithms/expand_bfs.py (PySrcSd.v, regenerated on every run; embedding PyLibSd.v) equals the model's expand_bfs for every diagram, every limit and every fuel *)
Theorem C03_source_expand_bfs : forall (fuel : nat) (N : net) (cfg : config) (d : sd) (start level_limit size_limit : option nat), py_expand_bfs fuel N cfg d start level_limit size_limit = expand_bfs fuel N cfg d start level_limit size_limit.
Proof. exact py_expand_bfs_spec_all. Qed.

(* ... and expand_dfs.py the model's expand_dfs *)
Theorem C03_source_expand_dfs : forall (fuel : nat) (N : net) (cfg : config) (d : sd) (start stack_limit size_limit : option nat), py_expand_dfs fuel N cfg d start stack_limit size_limit = expand_dfs fuel N cfg d start stack_limit size_limit.
Proof. exact py_expand_dfs_spec_all. Qed.

(* the public methods SuccessionDiagram.expand_bfs / expand_dfs (generated from the source: they pass their parameters on in order) *)
Theorem C03_source_public_expand_bfs : forall (fuel : nat) (N : net) (cfg : config) (d : sd) (start level_limit size_limit : option nat), py_api_expand_bfs fuel N cfg d start level_limit size_limit = expand_bfs fuel N cfg d start level_limit size_limit.
Proof. exact py_api_expand_bfs_spec. Qed.

Theorem C03_source_public_expand_dfs : forall (fuel : nat) (N : net) (cfg : config) (d : sd) (start stack_limit size_limit : option nat), py_api_expand_dfs fuel N cfg d start stack_limit size_limit = expand_dfs fuel N cfg d start stack_limit size_limit.
Proof. exact py_api_expand_dfs_spec. Qed.

Theorem C03_bfs_complete : forall (fuel : nat) (N : net) (cfg : config) (d d' : sd), 1 <= max_motifs cfg -> SWF N d -> NoStubEdges d -> EdgeStrict d -> Rooted d -> expand_bfs fuel N cfg d None None None = (d', RBool true) -> AllExpanded d'.
Proof. exact bfs_complete. Qed.

Theorem C03_dfs_complete : forall (fuel : nat) (N : net) (cfg : config) (d d' : sd), 1 <= max_motifs cfg -> SWF N d -> NoStubEdges d -> EdgeStrict d -> Rooted d -> expand_dfs fuel N cfg d None None None = (d', RBool true) -> AllExpanded d'.
Proof. exact dfs_complete. Qed.

Theorem C03_leaves_are_min_traps : forall (N : net) (d : sd) (M : space), Hierarchy N d -> (exists i : nat, i < size d /\ is_minimal d i = true /\ n_space (get d i) = M) <-> min_trap N M.
Proof. exact hierarchy_leaves. Qed.

(* the oracle for minimal trap spaces is exact *)
Theorem C03_min_traps_spec : forall (N : net) (S : list (option bool)) (M : space), length S = nvars N -> In M (min_traps_b N S) <-> min_trap N M /\ subspace M S = true.
Proof. exact min_traps_b_spec. Qed.

Theorem C03_min_trap_exists : forall (N : net) (S : space), trap_space N S -> exists M : space, min_trap N M /\ subspace M S = true.
Proof. exact min_trap_exists. Qed.

Theorem C03_min_trap_closed : forall (N : net) (M : space), min_trap N M -> percolate_b N M = M.
Proof. exact min_trap_closed. Qed.

(* why the source shortcut at the root loses no minimal trap space *)
Theorem C03_min_trap_fixes_sources : forall (N : net) (M : space) (i : nat), min_trap N M -> i < nvars N -> is_source_b N i = true -> nth i M None <> None.
Proof. exact min_trap_fixes_sources. Qed.

Theorem C03_invariants_along_histories : forall (fuel : nat) (N : net) (cfg : config) (h : list op) (d : sd) (r : result), 1 <= max_motifs cfg -> Forall plain h -> In (d, r) (run fuel N cfg (init N) h) -> SWF N d /\ TrapNodes N d /\ EdgeStrict d /\ NoStubEdges d /\ Rooted d /\ Faithful N d.
Proof. exact run_invariants. Qed.

(* minimal-space expansion (with or without skip_ignored) from a fresh diagram: leaves = minimal trap spaces *)
Theorem C03_minimal_space_expansion_exact : forall (fuel : nat) (N : net) (cfg : config) (d' : sd) (skip : bool) (tape : list space), 1 <= max_motifs cfg -> expand_min fuel N cfg (init N) None None skip tape = (d', RBool true) -> LeafOK N d' /\ MinFound N d'.
Proof. exact expand_min_exact. Qed.

(* ... and from any diagram satisfying the invariants *)
Theorem C03_minimal_space_expansion_complete : forall (fuel : nat) (N : net) (cfg : config) (d d' : sd) (skip : bool) (tape : list space), 1 <= max_motifs cfg -> SWF N d -> TrapNodes N d -> NoStubEdges d -> EdgeStrict d -> Faithful N d -> n_space (get d 0) = percolate_b N (top_space (nvars N)) -> expand_min fuel N cfg d None None skip tape = (d', RBool true) -> MinFound N d'.
Proof. exact expand_min_complete. Qed.

(* completion of an early-stopped diagram by skip_remaining *)
Theorem C03_skip_remaining_exact : forall (N : net) (d d' : sd) (tape : list space) (k : nat), SWF N d -> TrapNodes N d -> NoStubEdges d -> EdgeStrict d -> LeafOK N d -> n_space (get d 0) = percolate_b N (top_space (nvars N)) -> skip_remaining N d tape = (d', RNat k) -> LeafOK N d' /\ MinFound N d' /\ AllExpanded d'.
Proof. exact skip_remaining_exact. Qed.

(* in every reachable diagram (any history) an expanded node without successors is a minimal trap space *)
Theorem C03_leaves_always_minimal : forall (fuel : nat) (N : net) (cfg : config) (h : list op) (d : sd) (r : result), 1 <= max_motifs cfg -> In (d, r) (run fuel N cfg (init N) h) -> LeafOK N d.
Proof. exact run_LeafOK. Qed.

Theorem C03_no_duplicates : forall (N : net) (d : sd) (i j : nat), SWF N d -> i < size d -> j < size d -> n_space (get d i) = n_space (get d j) -> i = j.
Proof. exact minimal_nodes_unique. Qed.

(* source-block expansion (model Blocks.v, replayed against the code): every leaf is a minimal trap space *)
Theorem C03_block_expansion_leaves_minimal : forall (fuel : nat) (N : net) (cfg : config) (d : sd) (maa opt : bool) (sz : option nat) (tape : list bool), 1 <= max_motifs cfg -> SWF N d -> TrapNodes N d -> NoStubEdges d -> LeafOK N d -> LeafOK N (fst (expand_block fuel N cfg d maa opt sz tape)).
Proof. exact expand_block_LeafOK_strong. Qed.

(* the block of a motif is closed under regulators and contains the motif's variables *)
Theorem C03_block_closed : forall (N : net) (S : space) (m : list (option bool)), trap_space N S -> length m = nvars N -> subspace m S = true -> closed_in N S (block_of N S (reduce_by m S)) /\ fixes_within m S (block_of N S (reduce_by m S)).
Proof. exact block_of_closed. Qed.

(* trap spaces project onto a regulator-closed block *)
Theorem C03_trap_spaces_project : forall (N : net) (S M : space) (B : list nat), trap_space N S -> trap_space N M -> subspace M S = true -> closed_in N S B -> trap_space N (proj_space M S B) /\ subspace M (proj_space M S B) = true /\ subspace (proj_space M S B) S = true /\ fixes_within (proj_space M S B) S B.
Proof. exact proj_trap. Qed.

(* independence of minimal source blocks: every minimal trap space of the node lies below a motif of every closed block that carries a motif *)
Theorem C03_min_trap_in_block : forall (N : net) (S : space) (srcs B : list nat) (m0 M : space), trap_space N S -> closed_in N S B -> In m0 (max_traps_b N S srcs) -> fixes_within m0 S B -> min_trap N M -> subspace M S = true -> fixes_all M srcs = true -> (forall v : nat, In v srcs -> nth v S None = None -> In v B) -> exists T : space, In T (max_traps_b N S srcs) /\ subspace M T = true /\ fixes_within T S B.
Proof. exact min_trap_in_block. Qed.

(* the block may be computed from the FIRST motif of a successor *)
Theorem C03_same_child_same_block : forall (N : net) (S : space) (srcs B : list nat) (T m1 : space), trap_space N S -> percolate_b N S = S -> closed_in N S B -> In T (max_traps_b N S srcs) -> In m1 (max_traps_b N S srcs) -> (forall v : nat, In v srcs -> nth v S None = None -> In v B) -> fixes_within T S B -> percolate_b N m1 = percolate_b N T -> fixes_within m1 S B.
Proof. exact same_child_same_block. Qed.

(* no minimal trap space is missed by block expansion (any options, any tape) *)
Theorem C03_block_expansion_complete : forall (fuel : nat) (N : net) (cfg : config) (d' : sd) (maa opt : bool) (sz : option nat) (tape : list bool), 1 <= max_motifs cfg -> expand_block fuel N cfg (init N) maa opt sz tape = (d', RBool true) -> MinFound N d'.
Proof. exact expand_block_MinFound. Qed.

Theorem C03_block_expansion_shapes : forall (fuel : nat) (N : net) (cfg : config) (d : sd) (maa opt : bool) (sz : option nat) (tape : list bool), 1 <= max_motifs cfg -> SWF N d -> TrapNodes N d -> NoStubEdges d -> CanonOrFF N d -> CanonOrFF N (fst (expand_block fuel N cfg d maa opt sz tape)).
Proof. exact expand_block_CanonOrFF. Qed.

Theorem C03_aseeds_expansion_complete : forall (fuel : nat) (N : net) (cfg : config) (d d' : sd) (sz : option nat) (min_tape : list space) (tape : list (list nat)), 1 <= max_motifs cfg -> PlainInv N d -> expand_aseeds fuel N cfg d sz min_tape tape = (d', RBool true) -> nfvs_log_ok N (expand_aseeds_log fuel N cfg d sz min_tape tape) -> MinFound N d'.
Proof. exact expand_aseeds_MinFound. Qed.

Theorem C03_aseeds_expansion_leaves_minimal : forall (fuel : nat) (N : net) (cfg : config) (d : sd) (sz : option nat) (min_tape : list space) (tape : list (list nat)), 1 <= max_motifs cfg -> PlainInv N d -> LeafOK N d -> LeafOK N (fst (expand_aseeds fuel N cfg d sz min_tape tape)).
Proof. exact expand_aseeds_LeafOK. Qed.

Theorem C03_work_list_descent : forall (N : net) (d : sd), SWF N d -> TrapNodes N d -> EdgeStrict d -> n_space (get d 0) = percolate_b N (top_space (nvars N)) -> n_exp (get d 0) = true -> min_good N d [] -> MinFound N d.
Proof. exact min_good_found. Qed.

(* source SCCs: non-empty, closed under regulators, duplicate-free, strongly connected *)
Theorem C03_scc_components : forall (N : net) (S : list (option bool)) (B : list nat), length S = nvars N -> In B (source_sccs N S) -> B <> [] /\ closed_in N S B /\ NoDup B /\ (forall u v : nat, In u B -> In v B -> In v (fwd_closure (nvars N) N S [u])).
Proof. exact source_sccs_spec. Qed.

Theorem C03_scc_components_disjoint : forall (N : net) (S : list (option bool)) (B1 B2 : list nat) (v : nat), length S = nvars N -> In B1 (source_sccs N S) -> In B2 (source_sccs N S) -> In v B1 -> In v B2 -> B1 = B2.
Proof. exact source_sccs_disjoint. Qed.

(* a trap space of the component sub-network grafted onto the attach space is a trap space of the network *)
Theorem C03_scc_graft_trap : forall (N : net) (S : space) (B : list nat) (T A : space), trap_space N S -> closed_in N S B -> trap_space (sub_net N S B) T -> trap_space N A -> subspace A S = true -> (forall v : nat, In v B -> nth v A None = None) -> trap_space N (graft B T A).
Proof. exact graft_trap. Qed.

Theorem C03_scc_expansion_trap_nodes : forall (fuel : nat) (N : net) (cfg : config) (d : sd) (maa : bool) (tape : tape_t), 1 <= max_motifs cfg -> SWF N d -> TrapNodes N d -> TrapNodes N (fst (expand_scc fuel N cfg d maa tape)).
Proof. exact expand_scc_TrapNodes. Qed.

Theorem C03_scc_expansion_grows : forall (fuel : nat) (N : net) (cfg : config) (d : sd) (maa : bool) (tape : tape_t), size d <= size (fst (expand_scc fuel N cfg d maa tape)) /\ (forall i : nat, i < size d -> n_space (get (fst (expand_scc fuel N cfg d maa tape)) i) = n_space (get d i)).
Proof. exact expand_scc_grows. Qed.

(* source-SCC strategy from a fresh diagram: no minimal trap space is missed *)
Theorem C03_scc_expansion_complete : forall (fuel : nat) (N : net) (cfg : config) (d' : sd) (maa : bool) (tape : tape_t), 1 <= max_motifs cfg -> expand_scc fuel N cfg (init N) maa tape = (d', RBool true) -> MinFound N d'.
Proof. exact expand_scc_MinFound. Qed.

(* ... and none is spurious *)
Theorem C03_scc_expansion_leaves_minimal : forall (fuel : nat) (N : net) (cfg : config) (d' : sd) (maa : bool) (tape : tape_t), 1 <= max_motifs cfg -> expand_scc fuel N cfg (init N) maa tape = (d', RBool true) -> LeafOK N d'.
Proof. exact expand_scc_LeafOK. Qed.

(* ... and no stub is left behind *)
Theorem C03_scc_expansion_all_expanded : forall (fuel : nat) (N : net) (cfg : config) (d' : sd) (maa : bool) (tape : tape_t), 1 <= max_motifs cfg -> expand_scc fuel N cfg (init N) maa tape = (d', RBool true) -> AllExpanded d'.
Proof. exact expand_scc_AllExpanded. Qed.

(* after the D18 fix block expansion needs no fresh diagram *)
Theorem C03_block_expansion_complete_from_any_plain_diagram : forall (fuel : nat) (N : net) (cfg : config) (d d' : sd) (maa opt : bool) (sz : option nat) (tape : list bool), 1 <= max_motifs cfg -> PlainInv N d -> expand_block fuel N cfg d maa opt sz tape = (d', RBool true) -> MinFound N d'.
Proof. exact expand_block_MinFound_from. Qed.

Theorem C03_block_expansion_leaves_minimal_from : forall (fuel : nat) (N : net) (cfg : config) (d : sd) (maa opt : bool) (sz : option nat) (tape : list bool), 1 <= max_motifs cfg -> PlainInv N d -> LeafOK N d -> LeafOK N (fst (expand_block fuel N cfg d maa opt sz tape)).
Proof. exact expand_block_LeafOK_from. Qed.

(* non-vacuity: two bistable switches; x0'=x1, x1'=x0, x2'=x3, x3'=x2 *)
Definition ex_sw : net := [fun s => nth 1 s false; fun s => nth 0 s false; fun s => nth 3 s false; fun s => nth 2 s false].
Definition ex_cfg : config := {| max_motifs := 1000 |}.

Example C03_example : length (min_traps_b ex_sw (top_space 4)) = 4.
Proof. vm_compute. reflexivity. Qed.
Example C03_example_block : length (minimal_ids (fst (expand_block 100 ex_sw ex_cfg (init ex_sw) false true None []))) = 4 /\
  size (fst (expand_block 100 ex_sw ex_cfg (init ex_sw) false true None [])) = 9.
Proof. vm_compute. split; reflexivity. Qed.

Print Assumptions C03_source_expand_source_SCCs.
Print Assumptions C03_source_expand_source_SCCs_fresh.
Print Assumptions C03_source_expand_source_blocks.
Print Assumptions C03_source_expand_source_blocks_fresh.
Print Assumptions C03_source_public_expand_block.
Print Assumptions C03_source_text_expand_block_complete.
Print Assumptions C03_source_text_expand_block_complete_from.
Print Assumptions C03_source_minimal_trap_spaces.
Print Assumptions C03_source_text_expand_scc_complete.
Print Assumptions C03_source_text_expand_minimal_spaces_complete.
Print Assumptions C03_source_text_expand_attractor_seeds_complete.
Print Assumptions C03_source_text_expand_bfs_complete.
Print Assumptions C03_source_text_expand_dfs_complete.
Print Assumptions C03_source_expand_minimal_spaces.
Print Assumptions C03_source_public_expand_minimal_spaces.
Print Assumptions C03_source_expand_attractor_seeds.
Print Assumptions C03_source_public_expand_attractor_seeds.
Print Assumptions C03_source_make_skip_node.
Print Assumptions C03_source_make_skip_node_counterexample.
Print Assumptions C03_source_expand_bfs.
Print Assumptions C03_source_expand_dfs.
Print Assumptions C03_source_public_expand_bfs.
Print Assumptions C03_source_public_expand_dfs.
Print Assumptions C03_bfs_complete.
Print Assumptions C03_dfs_complete.
Print Assumptions C03_leaves_are_min_traps.
Print Assumptions C03_min_traps_spec.
Print Assumptions C03_min_trap_exists.
Print Assumptions C03_min_trap_closed.
Print Assumptions C03_min_trap_fixes_sources.
Print Assumptions C03_invariants_along_histories.
Print Assumptions C03_minimal_space_expansion_exact.
Print Assumptions C03_minimal_space_expansion_complete.
Print Assumptions C03_skip_remaining_exact.
Print Assumptions C03_leaves_always_minimal.
Print Assumptions C03_no_duplicates.
Print Assumptions C03_block_expansion_leaves_minimal.
Print Assumptions C03_block_closed.
Print Assumptions C03_trap_spaces_project.
Print Assumptions C03_min_trap_in_block.
Print Assumptions C03_same_child_same_block.
Print Assumptions C03_block_expansion_complete.
Print Assumptions C03_block_expansion_shapes.
Print Assumptions C03_aseeds_expansion_complete.
Print Assumptions C03_aseeds_expansion_leaves_minimal.
Print Assumptions C03_work_list_descent.
Print Assumptions C03_scc_components.
Print Assumptions C03_scc_components_disjoint.
Print Assumptions C03_scc_graft_trap.
Print Assumptions C03_scc_expansion_trap_nodes.
Print Assumptions C03_scc_expansion_grows.
Print Assumptions C03_scc_expansion_complete.
Print Assumptions C03_scc_expansion_leaves_minimal.
Print Assumptions C03_scc_expansion_all_expanded.
Print Assumptions C03_block_expansion_complete_from_any_plain_diagram.
Print Assumptions C03_block_expansion_leaves_minimal_from.
