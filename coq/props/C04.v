(* C04 -- Lazily built diagrams are always a faithful part of the full diagram

   Model: Diagram.step over histories of plain operations with arbitrary limits and start nodes.  Faithful: an
   expanded ordinary node carries exactly the maximal trap spaces of its space as motifs of its out-edges;
   NoStubEdges: an unexpanded node has no out-edge; SWF: no space occurs twice.  step_Faithful_all extends
   this to every operation (skip nodes are excluded from Faithful by definition).  Continuing with BFS from any
   such state yields a Hierarchy (bfs_complete + the invariants), i.e. the same diagram up to node ids.

   This file contains only restatements closed by `exact` (statements produced by Coq's own
   `Check` of the library lemma) plus non-vacuity Examples, each followed by Print Assumptions. *)
From Coq Require Import List Bool Arith NArith Lia Relations Permutation.
Import ListNotations.
From BB Require Import BN Brute SpaceFacts TrapFacts PercolateFacts AttractorFacts Diagram Invariants Checks Filter
  Strict PetriNet Control Meta FilterFacts PetriNetFacts TrappistFacts DiagramStruct DiagramSem1 DiagramCache
  DiagramDepth DiagramComplete Termination ControlFacts MetaFacts Candidates StrictFacts MinExpandFacts CandidatesFacts SymbolicTest SymbolicTestFacts Signed ReductionFacts ControlFacts2 Main Blocks BlocksFacts ObsFacts OwnerFacts CandidatesTerm
  PartialOwner BlockMath BlockComplete ASeeds ASeedsFacts LogChecks SkipRule SkipRuleFacts Names NamesFacts Perm PermFacts SCC SCCFacts SCCStruct ControlFacts3 SCCTerm FilterSym Main2 StrategyFacts ControlFacts4 SkipRuleFacts2 SCCComplete SCCAttr BlockComplete2 ControlFacts5 Iso SkipSem ControlFacts6.
From BB Require Import PyLib PyLibSd PySrcSdBase PySrcSd PySrcSdFacts PyLibCore PySrcCore PySrcCoreFacts.

(* ... node_successors(id, compute=True) computes Diagram.node_successors: the primitive of the translated strategy drivers *)
Theorem C04_source_node_successors : forall (fuel : nat) (N : net) (cfg : config) (pnc : nat -> bool) (w : pyst) (i : nat), CoreInv N w -> i < size (p_sd w) -> 1 <= max_motifs cfg -> S (size (fst (expand_one N cfg (p_sd w) i))) < fuel -> exists w' : pyst, p_sd w' = fst (fst (node_successors N cfg (p_sd w) i)) /\ CoreInv N w' /\ match snd (fst (node_successors N cfg (p_sd w) i)) with | RUnit => py_node_successors fuel N cfg pnc w i true = CRet w' (snd (node_successors N cfg (p_sd w) i)) | RBool b => py_node_successors fuel N cfg pnc w i true = CRaise w' (RBool b) | RNat k => py_node_successors fuel N cfg pnc w i true = CRaise w' (RNat k) | RIds l => py_node_successors fuel N cfg pnc w i true = CRaise w' (RIds l) | RRaised e => py_node_successors fuel N cfg pnc w i true = CRaise w' (RRaised e) | RFuel => py_node_successors fuel N cfg pnc w i true = CRaise w' RFuel end.
Proof. exact py_node_successors_spec. Qed.

(* translator tie: the function GENERATED from the current text of SuccessionDiagram._expand_one_node (PySrcCore.v; embedding PyLibCore.v) computes Diagram.expand_one for every diagram satisfying the class invariant CoreInv, every oracle for the percolated-net cache, and preserves CoreInv *)
Theorem C04_source_expand_one_node : forall (fuel : nat) (N : net) (cfg : config) (pnc : nat -> bool) (w : pyst) (i : nat), CoreInv N w -> i < size (p_sd w) -> 1 <= max_motifs cfg -> S (size (fst (expand_one N cfg (p_sd w) i))) < fuel -> exists w' : pyst, p_sd w' = fst (expand_one N cfg (p_sd w) i) /\ CoreInv N w' /\ match snd (expand_one N cfg (p_sd w) i) with | RUnit => py_expand_one_node fuel N cfg pnc w i = CRet w' Datatypes.tt \/ py_expand_one_node fuel N cfg pnc w i = CNext w' Datatypes.tt | RBool b => py_expand_one_node fuel N cfg pnc w i = CRaise w' (RBool b) | RNat k => py_expand_one_node fuel N cfg pnc w i = CRaise w' (RNat k) | RIds l => py_expand_one_node fuel N cfg pnc w i = CRaise w' (RIds l) | RRaised e => py_expand_one_node fuel N cfg pnc w i = CRaise w' (RRaised e) | RFuel => py_expand_one_node fuel N cfg pnc w i = CRaise w' RFuel end.
Proof. exact py_expand_one_node_spec. Qed.

(* translator tie: the function GENERATED from the current text of biobalm/_sd_algorithms/expand_bfs.py (PySrcSd.v, regenerated on every run; embedding PyLibSd.v) equals the model's expand_bfs for every diagram, every limit and every fuel *)
Theorem C04_source_expand_bfs : forall (fuel : nat) (N : net) (cfg : config) (d : sd) (start level_limit size_limit : option nat), py_expand_bfs fuel N cfg d start level_limit size_limit = expand_bfs fuel N cfg d start level_limit size_limit.
Proof. exact py_expand_bfs_spec_all. Qed.

(* ... and expand_dfs.py the model's expand_dfs *)
Theorem C04_source_expand_dfs : forall (fuel : nat) (N : net) (cfg : config) (d : sd) (start stack_limit size_limit : option nat), py_expand_dfs fuel N cfg d start stack_limit size_limit = expand_dfs fuel N cfg d start stack_limit size_limit.
Proof. exact py_expand_dfs_spec_all. Qed.

(* the public methods SuccessionDiagram.expand_bfs / expand_dfs (generated from the source: they pass their parameters on in order) *)
Theorem C04_source_public_expand_bfs : forall (fuel : nat) (N : net) (cfg : config) (d : sd) (start level_limit size_limit : option nat), py_api_expand_bfs fuel N cfg d start level_limit size_limit = expand_bfs fuel N cfg d start level_limit size_limit.
Proof. exact py_api_expand_bfs_spec. Qed.

Theorem C04_source_public_expand_dfs : forall (fuel : nat) (N : net) (cfg : config) (d : sd) (start stack_limit size_limit : option nat), py_api_expand_dfs fuel N cfg d start stack_limit size_limit = expand_dfs fuel N cfg d start stack_limit size_limit.
Proof. exact py_api_expand_dfs_spec. Qed.

Theorem C04_run_invariants : forall (fuel : nat) (N : net) (cfg : config) (h : list op) (d : sd) (r : result), 1 <= max_motifs cfg -> Forall plain h -> In (d, r) (run fuel N cfg (init N) h) -> SWF N d /\ TrapNodes N d /\ EdgeStrict d /\ NoStubEdges d /\ Rooted d /\ Faithful N d.
Proof. exact run_invariants. Qed.

Theorem C04_step_Faithful_all : forall (fuel : nat) (N : net) (cfg : config) (d : sd) (o : op), 1 <= max_motifs cfg -> SWF N d -> NoStubEdges d -> Faithful N d -> Faithful N (fst (step fuel N cfg d o)).
Proof. exact step_Faithful_all. Qed.

Theorem C04_step_NoStubEdges : forall (fuel : nat) (N : net) (cfg : config) (d : sd) (o : op), SWF N d -> NoStubEdges d -> NoStubEdges (fst (step fuel N cfg d o)).
Proof. exact step_NoStubEdges. Qed.

Theorem C04_step_SWF : forall (fuel : nat) (N : net) (cfg : config) (d : sd) (o : op), SWF N d -> SWF N (fst (step fuel N cfg d o)).
Proof. exact step_SWF. Qed.

(* what a single node expansion establishes, atomically *)
Theorem C04_expand_one_canonical : forall (N : net) (cfg : config) (d : sd) (i : nat) (d' : sd), SWF N d -> NoStubEdges d -> i < size d -> n_exp (get d i) = false -> 1 <= max_motifs cfg -> expand_one N cfg d i = (d', RUnit) -> n_exp (get d' i) = true /\ n_skip (get d' i) = n_skip (get d i) /\ canonical N d' i /\ (forall j : nat, j < size d -> j <> i -> out_edges d' j = out_edges d j /\ n_exp (get d' j) = n_exp (get d j) /\ n_skip (get d' j) = n_skip (get d j)).
Proof. exact expand_one_canonical. Qed.

(* a raised motif-limit error changes neither edges nor flags *)
Theorem C04_expand_one_raise_unchanged : forall (N : net) (cfg : config) (d : sd) (i : nat) (d' : sd) (e : err), expand_one N cfg d i = (d', RRaised e) -> sd_edges d' = sd_edges d /\ size d' = size d /\ (forall j : nat, n_exp (get d' j) = n_exp (get d j) /\ n_space (get d' j) = n_space (get d j)).
Proof. exact expand_one_raise_unchanged. Qed.

(* continuing with an unrestricted BFS expands everything *)
Theorem C04_bfs_complete : forall (fuel : nat) (N : net) (cfg : config) (d d' : sd), 1 <= max_motifs cfg -> SWF N d -> NoStubEdges d -> EdgeStrict d -> Rooted d -> expand_bfs fuel N cfg d None None None = (d', RBool true) -> AllExpanded d'.
Proof. exact bfs_complete. Qed.

Theorem C04_block_expansion_without_source_shortcuts_is_plain : forall (fuel : nat) (N : net) (cfg : config) (d : sd) (maa : bool) (sz : option nat) (tape : list bool), 1 <= max_motifs cfg -> SWF N d -> NoStubEdges d -> Faithful N d -> Faithful N (fst (expand_block fuel N cfg d maa false sz tape)).
Proof. exact expand_block_Faithful. Qed.

Theorem C04_block_expansion_no_stub_edges : forall (fuel : nat) (N : net) (cfg : config) (d : sd) (maa opt : bool) (sz : option nat) (tape : list bool), SWF N d -> NoStubEdges d -> NoStubEdges (fst (expand_block fuel N cfg d maa opt sz tape)).
Proof. exact expand_block_NoStubEdges. Qed.

Theorem C04_block_expansion_wellformed : forall (fuel : nat) (N : net) (cfg : config) (d : sd) (maa opt : bool) (sz : option nat) (tape : list bool), SWF N d -> SWF N (fst (expand_block fuel N cfg d maa opt sz tape)).
Proof. exact expand_block_SWF. Qed.

Theorem C04_continuation_gives_the_fresh_hierarchy : forall (fuel1 fuel2 : nat) (N : net) (cfg : config) (d0 d1 d2 : sd), 1 <= max_motifs cfg -> SWF N d0 -> TrapNodes N d0 -> NoStubEdges d0 -> EdgeStrict d0 -> Rooted d0 -> Faithful N d0 -> NoSkips d0 -> n_space (get d0 0) = percolate_b N (top_space (nvars N)) -> expand_bfs fuel1 N cfg d0 None None None = (d1, RBool true) -> expand_bfs fuel2 N cfg (init N) None None None = (d2, RBool true) -> same_hierarchy d1 d2.
Proof. exact bfs_after_anything. Qed.

Theorem C04_hierarchy_unique : forall (N : net) (d d' : sd), Hierarchy N d -> Hierarchy N d' -> Rooted d -> Rooted d' -> same_hierarchy d d'.
Proof. exact hierarchy_unique_weak. Qed.

Theorem C04_aseeds_expansion_keeps_invariants : forall (fuel : nat) (N : net) (cfg : config) (d : sd) (sz : option nat) (min_tape : list space) (tape : list (list nat)), 1 <= max_motifs cfg -> PlainInv N d -> PlainInv N (fst (expand_aseeds fuel N cfg d sz min_tape tape)).
Proof. exact expand_aseeds_PlainInv. Qed.

(* non-vacuity: two bistable switches; x0'=x1, x1'=x0, x2'=x3, x3'=x2 *)
Definition ex_sw : net := [fun s => nth 1 s false; fun s => nth 0 s false; fun s => nth 3 s false; fun s => nth 2 s false].
Definition ex_cfg : config := {| max_motifs := 1000 |}.

Example C04_example : Forall plain [OExpandNode 0; ODfs (Some 1) (Some 0) (Some 3); OBfs None (Some 1) None].
Proof. repeat constructor. Qed.

Print Assumptions C04_source_node_successors.
Print Assumptions C04_source_expand_one_node.
Print Assumptions C04_source_expand_bfs.
Print Assumptions C04_source_expand_dfs.
Print Assumptions C04_source_public_expand_bfs.
Print Assumptions C04_source_public_expand_dfs.
Print Assumptions C04_run_invariants.
Print Assumptions C04_step_Faithful_all.
Print Assumptions C04_step_NoStubEdges.
Print Assumptions C04_step_SWF.
Print Assumptions C04_expand_one_canonical.
Print Assumptions C04_expand_one_raise_unchanged.
Print Assumptions C04_bfs_complete.
Print Assumptions C04_block_expansion_without_source_shortcuts_is_plain.
Print Assumptions C04_block_expansion_no_stub_edges.
Print Assumptions C04_block_expansion_wellformed.
Print Assumptions C04_continuation_gives_the_fresh_hierarchy.
Print Assumptions C04_hierarchy_unique.
Print Assumptions C04_aseeds_expansion_keeps_invariants.
