(* C02 -- A fully expanded diagram is exactly the hierarchy of percolated trap spaces

   Model: Diagram.expand_bfs / expand_dfs from Diagram.init (compared node by node, id by id, with the
   real expand_bfs / expand_dfs on every run).  Hierarchy = well-formed, all nodes trap spaces and
   percolation-closed, all expanded, Faithful (out-edges carry exactly the maximal trap spaces of the node,
   each once; at the root those fixing every source), root = percolation of the whole space.

   This file contains only restatements closed by `exact` (statements produced by Coq's own
   `Check` of the library lemma) plus non-vacuity Examples, each followed by Print Assumptions. *)
From Coq Require Import List Bool Arith NArith Lia Relations Permutation.
Import ListNotations.
From BB Require Import BN Brute SpaceFacts TrapFacts PercolateFacts AttractorFacts Diagram Invariants Checks Filter
  Strict PetriNet Control Meta FilterFacts PetriNetFacts TrappistFacts DiagramStruct DiagramSem1 DiagramCache
  DiagramDepth DiagramComplete Termination ControlFacts MetaFacts Candidates StrictFacts MinExpandFacts CandidatesFacts SymbolicTest SymbolicTestFacts Signed ReductionFacts ControlFacts2 Main Blocks BlocksFacts ObsFacts OwnerFacts CandidatesTerm
  PartialOwner BlockMath BlockComplete ASeeds ASeedsFacts LogChecks SkipRule SkipRuleFacts Names NamesFacts Perm PermFacts SCC SCCFacts SCCStruct ControlFacts3 SCCTerm FilterSym Main2 StrategyFacts ControlFacts4 SkipRuleFacts2 SCCComplete SCCAttr BlockComplete2 ControlFacts5 Iso SkipSem ControlFacts6.
From BB Require Import PyLib PyLibSd PySrcSdBase PySrcSd PySrcSdFacts PyLibCore PySrcCore PySrcCoreFacts PyLibCore2 PySrcCore2 PySrcCore2Facts PySrcInitFacts PySrcEndToEnd.

(* translator tie: the function GENERATED from the current text of SuccessionDiagram._expand_one_node (PySrcCore.v; embedding PyLibCore.v) computes Diagram.expand_one for every diagram satisfying the class invariant CoreInv, every oracle for the percolated-net cache, and preserves CoreInv *)
Theorem C02_source_expand_one_node : forall (fuel : nat) (N : net) (cfg : config) (pnc : nat -> bool) (w : pyst) (i : nat), CoreInv N w -> i < size (p_sd w) -> 1 <= max_motifs cfg -> S (size (fst (expand_one N cfg (p_sd w) i))) < fuel -> exists w' : pyst, p_sd w' = fst (expand_one N cfg (p_sd w) i) /\ CoreInv N w' /\ match snd (expand_one N cfg (p_sd w) i) with | RUnit => py_expand_one_node fuel N cfg pnc w i = CRet w' Datatypes.tt \/ py_expand_one_node fuel N cfg pnc w i = CNext w' Datatypes.tt | RBool b => py_expand_one_node fuel N cfg pnc w i = CRaise w' (RBool b) | RNat k => py_expand_one_node fuel N cfg pnc w i = CRaise w' (RNat k) | RIds l => py_expand_one_node fuel N cfg pnc w i = CRaise w' (RIds l) | RRaised e => py_expand_one_node fuel N cfg pnc w i = CRaise w' (RRaised e) | RFuel => py_expand_one_node fuel N cfg pnc w i = CRaise w' RFuel end.
Proof. exact py_expand_one_node_spec. Qed.

(* ... _ensure_node / _ensure_edge / _update_node_depth compute Diagram.ensure_node *)
Theorem C02_source_ensure_node : forall (fuel : nat) (N : net) (cfg : config) (pnc : nat -> bool) (w : pyst) (p : nat) (m : list (option bool)), CoreInv N w -> p < size (p_sd w) -> length m = nvars N -> trap_space N m -> strict_subspace (percolate_b N m) (n_space (get (p_sd w) p)) -> S (size (p_sd w)) < fuel -> exists w' : pyst, py_ensure_node fuel N cfg pnc w (Some p) m = CRet w' (snd (ensure_node N (p_sd w) (Some p) m)) /\ p_sd w' = fst (ensure_node N (p_sd w) (Some p) m) /\ CoreInv N w'.
Proof. exact py_ensure_node_spec. Qed.

Theorem C02_source_class_invariant_initially : forall N0 : net, exists idx : list (N * nat), CoreInv N0 {| p_sd := init N0; p_idx := idx |}.
Proof. exact init_CoreInv. Qed.

(* C02 for the SOURCE TEXT: the object built by the generated __init__ and expanded by the generated public expand_bfs (reporting completion) is the hierarchy of percolated trap spaces *)
Theorem C02_source_text_end_to_end_bfs : forall (fuel : nat) (N : net) (cfg : config) (pnc : nat -> bool) (w : pyst) (d' : sd), 1 <= max_motifs cfg -> 0 < fuel -> py_init fuel N cfg pnc = CNext w Datatypes.tt -> py_api_expand_bfs fuel N cfg (p_sd w) None None None = (d', RBool true) -> Hierarchy N d'.
Proof. exact py_init_then_expand_bfs_hierarchy. Qed.

Theorem C02_source_text_end_to_end_dfs : forall (fuel : nat) (N : net) (cfg : config) (pnc : nat -> bool) (w : pyst) (d' : sd), 1 <= max_motifs cfg -> 0 < fuel -> py_init fuel N cfg pnc = CNext w Datatypes.tt -> py_api_expand_dfs fuel N cfg (p_sd w) None None None = (d', RBool true) -> Hierarchy N d'.
Proof. exact py_init_then_expand_dfs_hierarchy. Qed.

(* translator tie: SuccessionDiagram.__init__ as generated from the source builds the model's initial diagram (root = percolation of the whole space) and establishes the class invariant *)
Theorem C02_source_init : forall (fuel : nat) (N : net) (cfg : config) (pnc : nat -> bool), 0 < fuel -> exists w : pyst, py_init fuel N cfg pnc = CNext w Datatypes.tt /\ p_sd w = init N /\ CoreInv N w.
Proof. exact py_init_spec. Qed.

(* translator tie: the function GENERATED from the current text of biobalm/_sd_algorithms/expand_bfs.py (PySrcSd.v, regenerated on every run; embedding PyLibSd.v) equals the model's expand_bfs for every diagram, every limit and every fuel *)
Theorem C02_source_expand_bfs : forall (fuel : nat) (N : net) (cfg : config) (d : sd) (start level_limit size_limit : option nat), py_expand_bfs fuel N cfg d start level_limit size_limit = expand_bfs fuel N cfg d start level_limit size_limit.
Proof. exact py_expand_bfs_spec_all. Qed.

(* ... and expand_dfs.py the model's expand_dfs *)
Theorem C02_source_expand_dfs : forall (fuel : nat) (N : net) (cfg : config) (d : sd) (start stack_limit size_limit : option nat), py_expand_dfs fuel N cfg d start stack_limit size_limit = expand_dfs fuel N cfg d start stack_limit size_limit.
Proof. exact py_expand_dfs_spec_all. Qed.

(* the public methods SuccessionDiagram.expand_bfs / expand_dfs (generated from the source: they pass their parameters on in order) *)
Theorem C02_source_public_expand_bfs : forall (fuel : nat) (N : net) (cfg : config) (d : sd) (start level_limit size_limit : option nat), py_api_expand_bfs fuel N cfg d start level_limit size_limit = expand_bfs fuel N cfg d start level_limit size_limit.
Proof. exact py_api_expand_bfs_spec. Qed.

Theorem C02_source_public_expand_dfs : forall (fuel : nat) (N : net) (cfg : config) (d : sd) (start stack_limit size_limit : option nat), py_api_expand_dfs fuel N cfg d start stack_limit size_limit = expand_dfs fuel N cfg d start stack_limit size_limit.
Proof. exact py_api_expand_dfs_spec. Qed.

Theorem C02_bfs_hierarchy : forall (fuel : nat) (N : net) (cfg : config) (d' : sd), 1 <= max_motifs cfg -> expand_bfs fuel N cfg (init N) None None None = (d', RBool true) -> Hierarchy N d'.
Proof. exact bfs_hierarchy. Qed.

Theorem C02_dfs_hierarchy : forall (fuel : nat) (N : net) (cfg : config) (d' : sd), 1 <= max_motifs cfg -> expand_dfs fuel N cfg (init N) None None None = (d', RBool true) -> Hierarchy N d'.
Proof. exact dfs_hierarchy. Qed.

(* successors = percolations of the maximal trap spaces *)
Theorem C02_successors : forall (N : net) (d : sd) (i : nat) (X : space), Hierarchy N d -> i < size d -> (exists j : nat, In j (successors d i) /\ n_space (get d j) = X) <-> (exists M : space, In M (max_traps_b N (n_space (get d i)) (node_srcs N i)) /\ X = percolate_b N M).
Proof. exact hierarchy_successors. Qed.

(* nodes without successors = minimal trap spaces of the network *)
Theorem C02_leaves : forall (N : net) (d : sd) (M : space), Hierarchy N d -> (exists i : nat, i < size d /\ is_minimal d i = true /\ n_space (get d i) = M) <-> min_trap N M.
Proof. exact hierarchy_leaves. Qed.

(* every space occurs once *)
Theorem C02_no_duplicates : forall (N : net) (d : sd) (i j : nat), Hierarchy N d -> i < size d -> j < size d -> n_space (get d i) = n_space (get d j) -> i = j.
Proof. exact hierarchy_leaves_unique. Qed.

(* swf_closed says percolate_b N S = S for node spaces; this is percolation-closedness *)
Theorem C02_node_spaces_closed : forall (N : net) (S : list (option bool)), length S = nvars N -> percolate_b N S = S <-> perc_closed N S.
Proof. exact percolate_b_fixed_iff_closed. Qed.

(* what max_traps_b (the model's solver) returns *)
Theorem C02_max_traps_spec : forall (N : net) (S : list (option bool)) (srcs : list nat) (M : space), length S = nvars N -> In M (max_traps_b N S srcs) <-> trap_space N M /\ strict_subspace M S /\ fixes_all M srcs = true /\ (forall M' : space, trap_space N M' -> strict_subspace M' S -> fixes_all M' srcs = true -> subspace M M' = true -> M' = M).
Proof. exact max_traps_b_spec_srcs. Qed.

Theorem C02_min_traps_spec : forall (N : net) (S : list (option bool)) (M : space), length S = nvars N -> In M (min_traps_b N S) <-> min_trap N M /\ subspace M S = true.
Proof. exact min_traps_b_spec. Qed.

(* non-vacuity: two bistable switches; x0'=x1, x1'=x0, x2'=x3, x3'=x2 *)
Definition ex_sw : net := [fun s => nth 1 s false; fun s => nth 0 s false; fun s => nth 3 s false; fun s => nth 2 s false].
Definition ex_cfg : config := {| max_motifs := 1000 |}.

Example C02_example : exists d, expand_bfs 100 ex_sw ex_cfg (init ex_sw) None None None = (d, RBool true) /\ size d = 9.
Proof. eexists. split. vm_compute. reflexivity. vm_compute. reflexivity. Qed.

Print Assumptions C02_source_expand_one_node.
Print Assumptions C02_source_ensure_node.
Print Assumptions C02_source_class_invariant_initially.
Print Assumptions C02_source_text_end_to_end_bfs.
Print Assumptions C02_source_text_end_to_end_dfs.
Print Assumptions C02_source_init.
Print Assumptions C02_source_expand_bfs.
Print Assumptions C02_source_expand_dfs.
Print Assumptions C02_source_public_expand_bfs.
Print Assumptions C02_source_public_expand_dfs.
Print Assumptions C02_bfs_hierarchy.
Print Assumptions C02_dfs_hierarchy.
Print Assumptions C02_successors.
Print Assumptions C02_leaves.
Print Assumptions C02_no_duplicates.
Print Assumptions C02_node_spaces_closed.
Print Assumptions C02_max_traps_spec.
Print Assumptions C02_min_traps_spec.
