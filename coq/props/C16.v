(* C16 -- Serialization and memory reclamation are transparent

   Model: OPickle is the identity on the model state (what pickling must be); OReclaim drops the candidate
   tag of nodes whose seeds are known.  reclaim_transparent: the runs from d and from reclaim d agree op by op on
   results and on everything observable (obs_eq: all fields except candidates of nodes with known seeds).
   PARTIAL: that Python's pickle and AEON's text round trip reproduce the fields is runtime behaviour, decided by
   running two real diagrams side by side.

   This file contains only restatements closed by `exact` (statements produced by Coq's own
   `Check` of the library lemma) plus non-vacuity Examples, each followed by Print Assumptions. *)
From Coq Require Import List Bool Arith NArith Lia Relations Permutation.
Import ListNotations.
From BB Require Import BN Brute SpaceFacts TrapFacts PercolateFacts AttractorFacts Diagram Invariants Checks Filter
  Strict PetriNet Control Meta FilterFacts PetriNetFacts TrappistFacts DiagramStruct DiagramSem1 DiagramCache
  DiagramDepth DiagramComplete Termination ControlFacts MetaFacts Candidates StrictFacts MinExpandFacts CandidatesFacts SymbolicTest SymbolicTestFacts Signed ReductionFacts ControlFacts2 Main Blocks BlocksFacts ObsFacts OwnerFacts CandidatesTerm
  PartialOwner BlockMath BlockComplete ASeeds ASeedsFacts LogChecks SkipRule SkipRuleFacts Names NamesFacts Perm PermFacts SCC SCCFacts SCCStruct ControlFacts3 SCCTerm FilterSym Main2 StrategyFacts ControlFacts4 SkipRuleFacts2 SCCComplete SCCAttr BlockComplete2 ControlFacts5 Iso SkipSem ControlFacts6.
From BB Require Import PyLib PyLibPickle PySrcPickle PySrcPickleFacts PyLibCore PySrcCore PySrcCoreFacts PyLibCore2 PySrcCore2 PySrcCore2Facts PySrcInitFacts.

(* translator tie: __setstate__ applied to the result of __getstate__ (both GENERATED from the current source, PySrcPickle.v) rebuilds the object attribute by attribute, given the AEON text round trip of the cleaned network and symbolic = AsynchronousGraph(network): the model's OPickle = identity *)
Theorem C16_source_pickle_round_trip : forall (V : Type) (to_aeon from_aeon cleanup_network async_graph : V -> V) (o blank : pobj V), cleanup_network (from_aeon (to_aeon (o_network o))) = o_network o -> o_symbolic o = async_graph (o_network o) -> py_setstate V from_aeon cleanup_network async_graph blank (py_getstate V to_aeon o) = Some o.
Proof. exact py_pickle_round_trip. Qed.

(* the configuration, the graph, the node index, the Petri net and the NFVS come back verbatim, unconditionally *)
Theorem C16_source_pickle_keeps_config : forall (V : Type) (to_aeon from_aeon cleanup_network async_graph : V -> V) (o blank o' : pobj V), py_setstate V from_aeon cleanup_network async_graph blank (py_getstate V to_aeon o) = Some o' -> o_config o' = o_config o /\ o_dag o' = o_dag o /\ o_node_indices o' = o_node_indices o /\ o_petri_net o' = o_petri_net o /\ o_nfvs o' = o_nfvs o.
Proof. exact py_pickle_keeps_config. Qed.

(* reclaim_node_data as generated from the source = Diagram.reclaim *)
Theorem C16_source_reclaim_node_data : forall (fuel : nat) (N0 : net) (cfg : config) (pnc : nat -> bool) (w : pyst), exists w' : pyst, py_reclaim_node_data fuel N0 cfg pnc w = CNext w' Datatypes.tt /\ p_sd w' = reclaim (p_sd w) /\ p_idx w' = p_idx w.
Proof. exact py_reclaim_node_data_spec. Qed.

Theorem C16_reclaim_transparent : forall (fuel : nat) (N : net) (cfg : config) (d : sd) (h : list op), Forall2 (fun a b : sd * result => obs_eq (fst a) (fst b) /\ snd a = snd b) (run fuel N cfg d h) (run fuel N cfg (reclaim d) h).
Proof. exact reclaim_transparent. Qed.

Theorem C16_step_respects_observation : forall (fuel : nat) (N : net) (cfg : config) (d d' : sd) (o : op), obs_eq d d' -> obs_eq (fst (step fuel N cfg d o)) (fst (step fuel N cfg d' o)) /\ snd (step fuel N cfg d o) = snd (step fuel N cfg d' o).
Proof. exact step_obs_eq. Qed.

Theorem C16_reclaim_obs_eq : forall d : sd, obs_eq d (reclaim d).
Proof. exact reclaim_obs_eq. Qed.

Theorem C16_reclaim_keeps_wellformed : forall (N : net) (d : sd), SWF N d -> SWF N (reclaim d).
Proof. exact reclaim_SWF. Qed.

Theorem C16_reclaim_CacheOK : forall d : sd, CacheOK d -> CacheOK (reclaim d).
Proof. exact reclaim_CacheOK. Qed.

Theorem C16_reclaim_extends : forall d : sd, extends d (reclaim d).
Proof. exact reclaim_extends. Qed.

Theorem C16_step_extends : forall (fuel : nat) (N : net) (cfg : config) (d : sd) (o : op), SWF N d -> extends d (fst (step fuel N cfg d o)).
Proof. exact step_extends. Qed.

(* the strategies that are not single ops: run on observationally equal diagrams they give equal results and observationally equal diagrams *)
Theorem C16_block_expansion_blind_to_reclaim : forall (fuel : nat) (N : net) (cfg : config) (d d' : sd) (maa opt : bool) (sz : option nat) (tape : list bool), obs_eq d d' -> rel2 (expand_block fuel N cfg d maa opt sz tape) (expand_block fuel N cfg d' maa opt sz tape).
Proof. exact expand_block_obs_eq. Qed.

Theorem C16_aseeds_expansion_blind_to_reclaim : forall (fuel : nat) (N : net) (cfg : config) (d d' : sd) (sz : option nat) (min_tape : list space) (tape : list (list nat)), obs_eq d d' -> rel2 (expand_aseeds fuel N cfg d sz min_tape tape) (expand_aseeds fuel N cfg d' sz min_tape tape).
Proof. exact expand_aseeds_obs_eq. Qed.

Theorem C16_scc_expansion_blind_to_reclaim : forall (fuel : nat) (N : net) (cfg : config) (d d' : sd) (maa : bool) (tape : tape_t), obs_eq d d' -> rel2 (expand_scc fuel N cfg d maa tape) (expand_scc fuel N cfg d' maa tape).
Proof. exact expand_scc_obs_eq. Qed.

Theorem C16_block_after_reclaim : forall (fuel : nat) (N : net) (cfg : config) (d : sd) (maa opt : bool) (sz : option nat) (tape : list bool), rel2 (expand_block fuel N cfg d maa opt sz tape) (expand_block fuel N cfg (reclaim d) maa opt sz tape).
Proof. exact expand_block_after_reclaim. Qed.

Theorem C16_aseeds_after_reclaim : forall (fuel : nat) (N : net) (cfg : config) (d : sd) (sz : option nat) (min_tape : list space) (tape : list (list nat)), rel2 (expand_aseeds fuel N cfg d sz min_tape tape) (expand_aseeds fuel N cfg (reclaim d) sz min_tape tape).
Proof. exact expand_aseeds_after_reclaim. Qed.

Theorem C16_scc_after_reclaim : forall (fuel : nat) (N : net) (cfg : config) (d : sd) (maa : bool) (tape : tape_t), rel2 (expand_scc fuel N cfg d maa tape) (expand_scc fuel N cfg (reclaim d) maa tape).
Proof. exact expand_scc_after_reclaim. Qed.

Print Assumptions C16_source_pickle_round_trip.
Print Assumptions C16_source_pickle_keeps_config.
Print Assumptions C16_source_reclaim_node_data.
Print Assumptions C16_reclaim_transparent.
Print Assumptions C16_step_respects_observation.
Print Assumptions C16_reclaim_obs_eq.
Print Assumptions C16_reclaim_keeps_wellformed.
Print Assumptions C16_reclaim_CacheOK.
Print Assumptions C16_reclaim_extends.
Print Assumptions C16_step_extends.
Print Assumptions C16_block_expansion_blind_to_reclaim.
Print Assumptions C16_aseeds_expansion_blind_to_reclaim.
Print Assumptions C16_scc_expansion_blind_to_reclaim.
Print Assumptions C16_block_after_reclaim.
Print Assumptions C16_aseeds_after_reclaim.
Print Assumptions C16_scc_after_reclaim.
