(* C06 -- Every intervention reported successful really forces the network into the target

   Model: Control.find_drivers / drivers_of_succession / succession_control; override N d is the network with
   d's variables turned into constants.  override_forces is the semantic core: if the logical domain of
   influence (percolation in the ORIGINAL network) of the previous trap space plus the override contains the
   motif, then in the OVERRIDDEN network every attractor reachable from the previous trap space has the
   motif's values.  find_drivers_force: every reported driver set forces.  forced_b is the brute-force
   decision procedure run on the implementation's interventions.  succession_control_sound is the property end to end:
   for every intervention reported successful on a diagram prepared by the target-directed expansion, the succession is a
   chain of nested trap spaces from the whole state space, every listed override has the step's motif in its LDOI and
   forces it, the final trap space meets the target and every minimal trap space inside it lies inside the target.

   This file contains only restatements closed by `exact` (statements produced by Coq's own
   `Check` of the library lemma) plus non-vacuity Examples, each followed by Print Assumptions. *)
From Coq Require Import List Bool Arith NArith Lia Relations Permutation.
Import ListNotations.
From BB Require Import BN Brute SpaceFacts TrapFacts PercolateFacts AttractorFacts Diagram Invariants Checks Filter
  Strict PetriNet Control Meta FilterFacts PetriNetFacts TrappistFacts DiagramStruct DiagramSem1 DiagramCache
  DiagramDepth DiagramComplete Termination ControlFacts MetaFacts Candidates StrictFacts MinExpandFacts CandidatesFacts SymbolicTest SymbolicTestFacts Signed ReductionFacts ControlFacts2 Main Blocks BlocksFacts ObsFacts OwnerFacts CandidatesTerm
  PartialOwner BlockMath BlockComplete ASeeds ASeedsFacts LogChecks SkipRule SkipRuleFacts Names NamesFacts Perm PermFacts SCC SCCFacts SCCStruct ControlFacts3 SCCTerm FilterSym Main2 StrategyFacts ControlFacts4 SkipRuleFacts2 SCCComplete SCCAttr BlockComplete2 ControlFacts5 Iso SkipSem ControlFacts6.
From BB Require Import PyLib PySrcBase PySrc PySrcFacts PyLibSd PySrcSdBase PySrcSdTarget PySrcSdTargetFacts PySrcEndToEndControl PyLib PyLibSd PyLibPerc PyLibCore PyLibControl PySrcControl PySrcControlFacts PySrcFindDriversFacts PySrcControlCorollaries PyLibSucc PySrcSucc PySrcSuccFacts PySrcSuccCtl PySrcSuccCtlFacts.

(* translator tie: the function GENERATED from the current text of control.successions_to_target (PySrcSucc.v: optional generated expand_to_target, hot-lava scan, descendant sets, end points, simple paths, products of reduced motif lists, feed-forward elimination) returns the model's successions_ff on the diagram left by expand_to_target, for every diagram satisfying succ_inv and every target fixing at least one variable *)
Theorem C06_source_successions_to_target : forall (fuel : nat) (N : net) (cfg : config) (d : sd) (target : list (option bool)) (ff : bool), succ_inv N d -> length target = nvars N -> 0 < count_fixed target -> let '(d1, r) := expand_to_target fuel N cfg d target None in py_successions_to_target fuel N cfg d target true ff = match r with | RRaised _ | RFuel => SRaise d1 r | _ => SRet d1 (successions_ff d1 target ff) end.
Proof. exact py_successions_to_target_spec. Qed.

Theorem C06_source_successions_scan : forall (fuel : nat) (N : net) (cfg : config) (d : sd) (target : list (option bool)) (ff : bool), succ_inv N d -> length target = nvars N -> 0 < count_fixed target -> py_successions_to_target fuel N cfg d target false ff = SRet d (successions_ff d target ff).
Proof. exact py_successions_scan_spec. Qed.

(* the empty target is outside the tie (and outside C06's quantifier): Python reads the empty intersection as inconsistent *)
Theorem C06_source_successions_empty_target_differs : exists (N : net) (d : sd), succ_inv N d /\ py_successions_to_target 10 N {| max_motifs := 1000 |} d (top_space (nvars N)) false false <> SRet d (successions_ff d (top_space (nvars N)) false).
Proof. exact py_successions_empty_target_differs. Qed.

(* succession_control as written in the source (pinned glue calling the generated successions_to_target and drivers_of_succession) is the model's succession_control_ff filtered by successful_only *)
Theorem C06_source_succession_control : forall (fuel : nat) (N : net) (cfg : config) (d : sd) (target : list (option bool)) (strat : bool) (maxd : option nat) (forb : option (list nat)) (so ff : bool), succ_inv N d -> length target = nvars N -> 0 < count_fixed target -> let '(d1, r) := expand_to_target fuel N cfg d target None in py_succession_control fuel N cfg d target strat maxd forb so ff = match r with | RRaised _ | RFuel => SRaise d1 r | _ => SRet d1 (filter (fun iv : list space * list (list space) * bool => negb so || snd iv) (succession_control_ff N d1 target strat maxd (forb_list forb) ff)) end.
Proof. exact py_succession_control_spec. Qed.

(* C06 for the SOURCE TEXT, end to end: after any history, every intervention the generated succession_control reports as successful is sound *)
Theorem C06_source_text_succession_control_sound_after_any_history : forall (fuel : nat) (N : net) (cfg : config) (h : list op) (d : sd) (r : result) (target : list (option bool)) (d' : sd) (l : list (list space * list (list space) * bool)) (strat : bool) (maxd : option nat) (forb : option (list nat)) (so ff : bool) (succ : list space) (ctl : list (list space)), 1 <= max_motifs cfg -> length target = nvars N -> 0 < count_fixed target -> In (d, r) (run fuel N cfg (init N) h) -> py_succession_control fuel N cfg d target strat maxd forb so ff = SRet d' l -> In (succ, ctl, true) l -> let spaces := chain N succ (top_space (nvars N)) in length ctl = length succ /\ (forall i : nat, i < length succ -> forall drv : space, In drv (nth i ctl []) -> subspace (percolate_b N (merge drv (nth i spaces []))) (nth i succ []) = true /\ forced (override N drv) (nth i spaces []) (nth i succ [])) /\ intersect (last spaces []) target <> None /\ (forall M : space, min_trap N M -> subspace M (last spaces []) = true -> subspace M target = true).
Proof. exact py_succession_control_after_any_history_sound. Qed.

Theorem C06_override_forces : forall (N : net) (S : space) (d m : list (option bool)), trap_space N S -> length d = nvars N -> length m = nvars N -> compatible d S -> subspace (percolate_b N (merge d S)) m = true -> forced (override N d) S m.
Proof. exact override_forces. Qed.

Theorem C06_override_forces_code : forall (N : net) (S : space) (d m : list (option bool)), trap_space N S -> length d = nvars N -> length m = nvars N -> compatible d S -> forces_ldoi N d S m = true -> forced (override N d) S m.
Proof. exact override_forces_code. Qed.

Theorem C06_find_drivers_force : forall (N : net) (ts : list (option bool)) (all_strategy : bool) (assume : space) (maxd : option nat) (forbidden : list nat) (drv : space), trap_space N assume -> length ts = nvars N -> In drv (find_drivers N ts all_strategy assume maxd forbidden) -> forced (override N drv) assume ts.
Proof. exact find_drivers_force. Qed.

Theorem C06_forced_b_spec : forall (M : net) (from : list (option bool)) (goal : space), length from = nvars M -> forced_b M from goal = true <-> forced M from goal.
Proof. exact forced_b_spec. Qed.

(* a reported driver never contradicts values already fixed *)
Theorem C06_find_drivers_avoid_assume : forall (N : net) (ts : list (option bool)) (all_strategy : bool) (assume : list (option bool)) (maxd : option nat) (forbidden : list nat) (drv : space), length ts = nvars N -> length assume = nvars N -> In drv (find_drivers N ts all_strategy assume maxd forbidden) -> forall (v : nat) (b : bool), nth v assume None = Some b -> nth v drv None = None.
Proof. exact find_drivers_avoid_assume. Qed.

(* each step of a succession is a trap space nested in the previous one *)
Theorem C06_percolation_of_trap_is_nested_trap : forall (N : net) (S : space), trap_space N S -> trap_space N (percolate_b N S) /\ subspace (percolate_b N S) S = true.
Proof. exact percolate_b_trap. Qed.

(* C06 end to end *)
Theorem C06_succession_control_sound : forall (N : net) (d : sd) (target : list (option bool)) (all_strategy : bool) (maxd : option nat) (forbidden : list nat) (succ : list space) (ctl : list (list space)), PlainInv N d -> length target = nvars N -> TargetExpanded target d -> In (succ, ctl, true) (succession_control N d target all_strategy maxd forbidden) -> let spaces := chain N succ (top_space (nvars N)) in length ctl = length succ /\ (forall i : nat, i < length succ -> trap_space N (nth i spaces []) /\ trap_space N (nth (S i) spaces []) /\ subspace (nth (S i) spaces []) (nth i spaces []) = true /\ nth i ctl [] <> [] /\ (forall drv : space, In drv (nth i ctl []) -> subspace (percolate_b N (merge drv (nth i spaces []))) (nth i succ []) = true /\ forced (override N drv) (nth i spaces []) (nth i succ []))) /\ intersect (last spaces []) target <> None /\ (forall M : space, min_trap N M -> subspace M (last spaces []) = true -> subspace M target = true).
Proof. exact succession_control_sound. Qed.

(* the target-directed expansion of a fresh diagram establishes the hypotheses *)
Theorem C06_target_expansion_prepares : forall (fuel : nat) (N : net) (cfg : config) (target : list (option bool)) (d' : sd), 1 <= max_motifs cfg -> length target = nvars N -> expand_to_target fuel N cfg (init N) target None = (d', RBool true) -> PlainInv N d' /\ TargetExpanded target d'.
Proof. exact target_expansion_TargetExpanded. Qed.

(* the accumulated assumptions are the node spaces along the path *)
Theorem C06_chain_follows_path : forall (N : net) (d : sd) (s : nat) (es : list edge) (succ : list space), PlainInv N d -> epath d 0 s es -> choice d es succ -> es <> [] -> last (chain N succ (top_space (nvars N))) [] = n_space (get d s).
Proof. exact chain_follows_path. Qed.

(* with skip_feedforward_successions the reported interventions are a subset, so the property still holds *)
Theorem C06_skip_feedforward_sound : forall (N : net) (d : sd) (target : list (option bool)) (all_strategy : bool) (maxd : option nat) (forbidden : list nat) (b : bool) (succ : list space) (ctl : list (list space)), PlainInv N d -> length target = nvars N -> TargetExpanded target d -> In (succ, ctl, true) (succession_control_ff N d target all_strategy maxd forbidden b) -> let spaces := chain N succ (top_space (nvars N)) in length ctl = length succ /\ (forall i : nat, i < length succ -> trap_space N (nth i spaces []) /\ trap_space N (nth (S i) spaces []) /\ subspace (nth (S i) spaces []) (nth i spaces []) = true /\ nth i ctl [] <> [] /\ (forall drv : space, In drv (nth i ctl []) -> subspace (percolate_b N (merge drv (nth i spaces []))) (nth i succ []) = true /\ forced (override N drv) (nth i spaces []) (nth i succ []))) /\ intersect (last spaces []) target <> None /\ (forall M : space, min_trap N M -> subspace M (last spaces []) = true -> subspace M target = true).
Proof. exact succession_control_ff_sound. Qed.

Theorem C06_skip_feedforward_subset : forall (N : net) (d : sd) (target : space) (all_strategy : bool) (maxd : option nat) (forbidden : list nat) (b : bool) (x : list space * list (list space) * bool), In x (succession_control_ff N d target all_strategy maxd forbidden b) -> In x (succession_control N d target all_strategy maxd forbidden).
Proof. exact succession_control_ff_incl. Qed.

(* translator tie: the function generated from the CURRENT source of space_utils.is_subspace equals the model's subspace *)
Theorem C06_source_is_subspace : forall (n : nat) (x y : pdict), wf_dict n x -> wf_dict n y -> py_is_subspace x y = Some (subspace (to_space n x) (to_space n y)).
Proof. exact py_is_subspace_spec. Qed.

(* ... and space_utils.intersect the model's intersect *)
Theorem C06_source_intersect : forall (n : nat) (x y : pdict), wf_dict n x -> wf_dict n y -> match py_intersect x y with | Some (Some r) => wf_dict n r /\ intersect (to_space n x) (to_space n y) = Some (to_space n r) | Some None => intersect (to_space n x) (to_space n y) = None | None => False end.
Proof. exact py_intersect_spec. Qed.

(* the whole call -- target-directed expansion of ANY plainly reached diagram, then succession control with either setting of skip_feedforward_successions -- reports only interventions that satisfy the property *)
Theorem C06_control_after_any_plain_history : forall (fuel : nat) (N : net) (cfg : config) (target : list (option bool)) (d d' : sd) (all_strategy : bool) (maxd : option nat) (forbidden : list nat) (b : bool) (succ : list space) (ctl : list (list space)), 1 <= max_motifs cfg -> length target = nvars N -> PlainInv N d -> expand_to_target fuel N cfg d target None = (d', RBool true) -> In (succ, ctl, true) (succession_control_ff N d' target all_strategy maxd forbidden b) -> let spaces := chain N succ (top_space (nvars N)) in length ctl = length succ /\ (forall i : nat, i < length succ -> trap_space N (nth i spaces []) /\ trap_space N (nth (S i) spaces []) /\ subspace (nth (S i) spaces []) (nth i spaces []) = true /\ nth i ctl [] <> [] /\ (forall drv : space, In drv (nth i ctl []) -> subspace (percolate_b N (merge drv (nth i spaces []))) (nth i succ []) = true /\ forced (override N drv) (nth i spaces []) (nth i succ []))) /\ intersect (last spaces []) target <> None /\ (forall M : space, min_trap N M -> subspace M (last spaces []) = true -> subspace M target = true).
Proof. exact control_after_plain_history_sound. Qed.

(* C06 for the SOURCE TEXT of control.find_drivers: every override the generated function reports forces the motif from the assumed trap space *)
Theorem C06_source_text_find_drivers_force : forall (N : net) (ts : list (option bool)) (strat : bool) (assume : space) (maxd : option nat) (forb : option (list nat)) (l : list space) (drv : space), trap_space N assume -> length ts = nvars N -> py_find_drivers N ts strat (Some assume) maxd forb = Some l -> In drv l -> forced (override N drv) assume ts.
Proof. exact py_find_drivers_force. Qed.

(* translator tie: control.find_drivers / drivers_of_succession as generated from the source compute the model's functions (whose reported overrides force the motif: find_drivers_force) *)
Theorem C06_source_find_drivers : forall (N : net) (ts : list (option bool)) (strat : bool) (assume : option space) (maxd : option nat) (forb : option (list nat)), length ts = nvars N -> length (opt_space N assume) = nvars N -> py_find_drivers N ts strat assume maxd forb = Some (find_drivers N ts strat (opt_space N assume) maxd (opt_vars forb)).
Proof. exact py_find_drivers_spec. Qed.

Theorem C06_source_drivers_of_succession : forall (N : net) (succ : list (list (option bool))) (strat : bool) (maxd : option nat) (forb : option (list nat)), (forall ts : list (option bool), In ts succ -> length ts = nvars N) -> py_drivers_of_succession N succ strat maxd forb = Some (drivers_of_succession N succ strat (top_space (nvars N)) maxd match forb with | Some l => l | None => [] end).
Proof. exact py_drivers_of_succession_spec. Qed.

(* C06 with the target-directed expansion AS WRITTEN IN THE SOURCE (generated public method), after any history *)
Theorem C06_source_text_end_to_end_control : forall (fuel : nat) (N : net) (cfg : config) (h : list op) (d : sd) (r : result) (target : list (option bool)) (d' : sd) (all_strategy : bool) (maxd : option nat) (forbidden : list nat) (b : bool) (succ : list space) (ctl : list (list space)), 1 <= max_motifs cfg -> length target = nvars N -> In (d, r) (run fuel N cfg (init N) h) -> py_api_expand_to_target fuel N cfg d target None = (d', RBool true) -> In (succ, ctl, true) (succession_control_ff N d' target all_strategy maxd forbidden b) -> let spaces := chain N succ (top_space (nvars N)) in length ctl = length succ /\ (forall i : nat, i < length succ -> forall drv : space, In drv (nth i ctl []) -> subspace (percolate_b N (merge drv (nth i spaces []))) (nth i succ []) = true /\ forced (override N drv) (nth i spaces []) (nth i succ [])) /\ intersect (last spaces []) target <> None /\ (forall M : space, min_trap N M -> subspace M (last spaces []) = true -> subspace M target = true).
Proof. exact py_control_after_any_history_sound. Qed.

Theorem C06_source_public_expand_to_target : forall (fuel : nat) (N : net) (cfg : config) (d : sd) (target : space) (size_limit : option nat), py_api_expand_to_target fuel N cfg d target size_limit = expand_to_target fuel N cfg d target size_limit.
Proof. exact py_api_expand_to_target_spec. Qed.

(* translator tie: the function GENERATED from the current text of biobalm/_sd_algorithms/expand_to_target.py (PySrcSdTarget.v) equals the model's expand_to_target *)
Theorem C06_source_expand_to_target : forall (fuel : nat) (N : net) (cfg : config) (d : sd) (target : space) (size_limit : option nat), py_expand_to_target fuel N cfg d target size_limit = expand_to_target fuel N cfg d target size_limit.
Proof. exact py_expand_to_target_spec_all. Qed.

(* the same for EVERY history of operations, skip operations (skip_to_minimal, skip_remaining, minimal-space expansion with skipping) included: the reported interventions are sound on diagrams with skip nodes and parentless minimal-trap nodes *)
Theorem C06_control_after_ANY_history : forall (fuel : nat) (N : net) (cfg : config) (h : list op) (d : sd) (r : result) (target : list (option bool)) (d' : sd) (all_strategy : bool) (maxd : option nat) (forbidden : list nat) (b : bool) (succ : list space) (ctl : list (list space)), 1 <= max_motifs cfg -> length target = nvars N -> In (d, r) (run fuel N cfg (init N) h) -> expand_to_target fuel N cfg d target None = (d', RBool true) -> In (succ, ctl, true) (succession_control_ff N d' target all_strategy maxd forbidden b) -> let spaces := chain N succ (top_space (nvars N)) in length ctl = length succ /\ (forall i : nat, i < length succ -> forall drv : space, In drv (nth i ctl []) -> subspace (percolate_b N (merge drv (nth i spaces []))) (nth i succ []) = true /\ forced (override N drv) (nth i spaces []) (nth i succ [])) /\ intersect (last spaces []) target <> None /\ (forall M : space, min_trap N M -> subspace M (last spaces []) = true -> subspace M target = true).
Proof. exact control_after_any_history_sound. Qed.

(* succession_control on any diagram satisfying the all-history invariant AnyInv *)
Theorem C06_control_sound_on_skipped_diagrams : forall (N : net) (d : sd) (target : list (option bool)) (all_strategy : bool) (maxd : option nat) (forbidden : list nat) (b : bool) (succ : list space) (ctl : list (list space)), AnyInv N d -> Anch d -> length target = nvars N -> TargetExpanded target d -> In (succ, ctl, true) (succession_control_ff N d target all_strategy maxd forbidden b) -> let spaces := chain N succ (top_space (nvars N)) in length ctl = length succ /\ (forall i : nat, i < length succ -> trap_space N (nth i spaces []) /\ trap_space N (nth (S i) spaces []) /\ subspace (nth (S i) spaces []) (nth i spaces []) = true /\ nth i ctl [] <> [] /\ (forall drv : space, In drv (nth i ctl []) -> subspace (percolate_b N (merge drv (nth i spaces []))) (nth i succ []) = true /\ forced (override N drv) (nth i spaces []) (nth i succ []))) /\ intersect (last spaces []) target <> None /\ (forall M : space, min_trap N M -> subspace M (last spaces []) = true -> subspace M target = true).
Proof. exact succession_control_sound_any. Qed.

Theorem C06_target_expansion_on_skipped_diagrams : forall (fuel : nat) (N : net) (cfg : config) (target : list (option bool)) (d d' : sd), 1 <= max_motifs cfg -> length target = nvars N -> AnyInv N d -> Anch d -> expand_to_target fuel N cfg d target None = (d', RBool true) -> AnyInv N d' /\ Anch d' /\ TargetExpanded target d'.
Proof. exact target_expansion_TargetExpanded_any. Qed.

Theorem C06_invariant_of_all_histories : forall (fuel : nat) (N : net) (cfg : config) (h : list op) (d : sd) (r : result), 1 <= max_motifs cfg -> In (d, r) (run fuel N cfg (init N) h) -> AnyInv N d /\ Anch d.
Proof. exact run_AnyInv_Anch. Qed.

Theorem C06_target_expansion_from_any_plain_diagram : forall (fuel : nat) (N : net) (cfg : config) (target : list (option bool)) (d d' : sd), 1 <= max_motifs cfg -> length target = nvars N -> PlainInv N d -> expand_to_target fuel N cfg d target None = (d', RBool true) -> PlainInv N d' /\ TargetExpanded target d'.
Proof. exact target_expansion_TargetExpanded_from. Qed.

Print Assumptions C06_source_successions_to_target.
Print Assumptions C06_source_successions_scan.
Print Assumptions C06_source_successions_empty_target_differs.
Print Assumptions C06_source_succession_control.
Print Assumptions C06_source_text_succession_control_sound_after_any_history.
Print Assumptions C06_override_forces.
Print Assumptions C06_override_forces_code.
Print Assumptions C06_find_drivers_force.
Print Assumptions C06_forced_b_spec.
Print Assumptions C06_find_drivers_avoid_assume.
Print Assumptions C06_percolation_of_trap_is_nested_trap.
Print Assumptions C06_succession_control_sound.
Print Assumptions C06_target_expansion_prepares.
Print Assumptions C06_chain_follows_path.
Print Assumptions C06_skip_feedforward_sound.
Print Assumptions C06_skip_feedforward_subset.
Print Assumptions C06_source_is_subspace.
Print Assumptions C06_source_intersect.
Print Assumptions C06_control_after_any_plain_history.
Print Assumptions C06_source_text_find_drivers_force.
Print Assumptions C06_source_find_drivers.
Print Assumptions C06_source_drivers_of_succession.
Print Assumptions C06_source_text_end_to_end_control.
Print Assumptions C06_source_public_expand_to_target.
Print Assumptions C06_source_expand_to_target.
Print Assumptions C06_control_after_ANY_history.
Print Assumptions C06_control_sound_on_skipped_diagrams.
Print Assumptions C06_target_expansion_on_skipped_diagrams.
Print Assumptions C06_invariant_of_all_histories.
Print Assumptions C06_target_expansion_from_any_plain_diagram.
