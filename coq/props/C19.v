(* C19 -- Results are reproducible

   The model is a function: the same network, configuration, history and tape give the same result.  The
   theorems below are the order-independence facts behind the places where the code iterates over Python
   sets or solver output.  PARTIAL: independence from the interpreter's hash seed and from other diagrams in
   the process is runtime behaviour, decided by re-running every case under several PYTHONHASHSEED values in
   fresh and in warm processes and comparing complete dumps.

   This file contains only restatements closed by `exact` (statements produced by Coq's own
   `Check` of the library lemma) plus non-vacuity Examples, each followed by Print Assumptions. *)
From Coq Require Import List Bool Arith NArith Lia Relations Permutation.
Import ListNotations.
From BB Require Import BN Brute SpaceFacts TrapFacts PercolateFacts AttractorFacts Diagram Invariants Checks Filter
  Strict PetriNet Control Meta FilterFacts PetriNetFacts TrappistFacts DiagramStruct DiagramSem1 DiagramCache
  DiagramDepth DiagramComplete Termination ControlFacts MetaFacts Candidates StrictFacts MinExpandFacts CandidatesFacts SymbolicTest SymbolicTestFacts Signed ReductionFacts ControlFacts2 Main Blocks BlocksFacts ObsFacts OwnerFacts CandidatesTerm
  PartialOwner BlockMath BlockComplete ASeeds ASeedsFacts LogChecks SkipRule SkipRuleFacts Names NamesFacts Perm PermFacts SCC SCCFacts SCCStruct ControlFacts3 SCCTerm FilterSym Main2 StrategyFacts ControlFacts4 SkipRuleFacts2 SCCComplete SCCAttr BlockComplete2 ControlFacts5 Iso SkipSem ControlFacts6.
From BB Require Import PyLib PyLibSd PySrcSdBase PySrcSd PySrcSdFacts PyLibCore PySrcCore PySrcCoreFacts.

(* translator tie: the text of _expand_one_node (which sorts the solver answer by space_unique_key before creating nodes) computes the model's expand_one, a function of the network, the configuration and the diagram only: node ids, edges and motif order cannot depend on hash seeds or on other diagrams *)
Theorem C19_source_expand_one_node_is_a_function_of_the_diagram : forall (fuel : nat) (N : net) (cfg : config) (pnc : nat -> bool) (w : pyst) (i : nat), CoreInv N w -> i < size (p_sd w) -> 1 <= max_motifs cfg -> S (size (fst (expand_one N cfg (p_sd w) i))) < fuel -> exists w' : pyst, p_sd w' = fst (expand_one N cfg (p_sd w) i) /\ CoreInv N w' /\ match snd (expand_one N cfg (p_sd w) i) with | RUnit => py_expand_one_node fuel N cfg pnc w i = CRet w' Datatypes.tt \/ py_expand_one_node fuel N cfg pnc w i = CNext w' Datatypes.tt | RBool b => py_expand_one_node fuel N cfg pnc w i = CRaise w' (RBool b) | RNat k => py_expand_one_node fuel N cfg pnc w i = CRaise w' (RNat k) | RIds l => py_expand_one_node fuel N cfg pnc w i = CRaise w' (RIds l) | RRaised e => py_expand_one_node fuel N cfg pnc w i = CRaise w' (RRaised e) | RFuel => py_expand_one_node fuel N cfg pnc w i = CRaise w' RFuel end.
Proof. exact py_expand_one_node_spec. Qed.

(* ... likewise the traversal order of expand_bfs / expand_dfs (successors are sorted) *)
Theorem C19_source_expand_bfs_is_a_function_of_the_diagram : forall (fuel : nat) (N : net) (cfg : config) (d : sd) (start level_limit size_limit : option nat), py_expand_bfs fuel N cfg d start level_limit size_limit = expand_bfs fuel N cfg d start level_limit size_limit.
Proof. exact py_expand_bfs_spec_all. Qed.

Theorem C19_source_expand_dfs_is_a_function_of_the_diagram : forall (fuel : nat) (N : net) (cfg : config) (d : sd) (start stack_limit size_limit : option nat), py_expand_dfs fuel N cfg d start stack_limit size_limit = expand_dfs fuel N cfg d start stack_limit size_limit.
Proof. exact py_expand_dfs_spec_all. Qed.

Theorem C19_percolation_order_independent : forall (N : net) (S : list (option bool)) (P P' : space), length S = nvars N -> is_percolation N S P -> is_percolation N S P' -> P = P'.
Proof. exact percolation_unique. Qed.

(* iteration over the Python candidate set *)
Theorem C19_strict_order_independent : forall (N : net) (order1 order2 : list nat) (S : list (option bool)), length S = nvars N -> NoDup order1 -> NoDup order2 -> (forall v : nat, In v order1 <-> v < nvars N) -> (forall v : nat, In v order2 <-> v < nvars N) -> percolate_strict_ord N order1 S = percolate_strict_ord N order2 S.
Proof. exact strict_order_independent. Qed.

Theorem C19_strict_fuel : forall (N : net) (order : list nat) (X : space) (f : nat), length X = nvars N -> S (nvars N) <= f -> strict_loop f N order X (top_space (nvars N)) = strict_loop (S (nvars N)) N order X (top_space (nvars N)).
Proof. exact strict_loop_fuel_enough. Qed.

(* solver output is sorted by key before node ids are assigned *)
Theorem C19_sort_by_key_perm : forall l : list space, Permutation (sort_by_key l) l.
Proof. exact sort_by_key_perm. Qed.

(* the key determines the space *)
Theorem C19_space_key_inj : forall x y : space, length x = length y -> space_key x = space_key y -> x = y.
Proof. exact space_key_inj. Qed.

Theorem C19_find_node_exact : forall (N : net) (d : sd) (X : list (option bool)) (i : nat), SWF N d -> length X = nvars N -> find_node d X = Some i <-> i < size d /\ n_space (get d i) = X.
Proof. exact find_node_exact. Qed.

Print Assumptions C19_source_expand_one_node_is_a_function_of_the_diagram.
Print Assumptions C19_source_expand_bfs_is_a_function_of_the_diagram.
Print Assumptions C19_source_expand_dfs_is_a_function_of_the_diagram.
Print Assumptions C19_percolation_order_independent.
Print Assumptions C19_strict_order_independent.
Print Assumptions C19_strict_fuel.
Print Assumptions C19_sort_by_key_perm.
Print Assumptions C19_space_key_inj.
Print Assumptions C19_find_node_exact.
