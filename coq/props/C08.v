(* C08 -- Attractor candidates cover every attractor under every option and limit setting

   Model: Candidates.compute_candidates = compute_attractor_candidates branch by branch (all limit comparisons,
   greedy flips, regeneration loop, both simulation variants), driven by a solver tape and a walk tape; every
   run of the real pipeline is replayed on it (same sequence of solver calls, same result).
   compute_candidates_covers_weak: for EVERY option combination and EVERY configuration value (0 included) a
   COk result consists of states of the node space covering every attractor of the node, under
   (a) the tape contracts (each solver answer is a duplicate-free prefix, of the length its limit allows, of
   the reduced fixed points; walks visit reachable states), (b) the retained variables hit every negative cycle of
   the node's semantic interaction graph (Signed.no_neg_walk; nfvs_reduction PROVES from it that for every
   assignment of them the reduced fixed points hit every attractor -- isotone source blocks, polarity switching,
   cascade over strongly connected components; the executable test no_neg_walk_b, proved exact, is run on every
   NFVS the code obtains from biodivine_aeon), and (c) for the empty-NFVS shortcut, that every
   fixed point of the node lies in an avoided space (true for expanded nodes of a faithful diagram; the formal
   counterexample without it is compute_candidates_covers_counterexample).

   This file contains only restatements closed by `exact` (statements produced by Coq's own
   `Check` of the library lemma) plus non-vacuity Examples, each followed by Print Assumptions. *)
From Coq Require Import List Bool Arith NArith Lia Relations Permutation.
Import ListNotations.
From BB Require Import BN Brute SpaceFacts TrapFacts PercolateFacts AttractorFacts Diagram Invariants Checks Filter
  Strict PetriNet Control Meta FilterFacts PetriNetFacts TrappistFacts DiagramStruct DiagramSem1 DiagramCache
  DiagramDepth DiagramComplete Termination ControlFacts MetaFacts Candidates StrictFacts MinExpandFacts CandidatesFacts SymbolicTest SymbolicTestFacts Signed ReductionFacts ControlFacts2 Main Blocks BlocksFacts ObsFacts OwnerFacts CandidatesTerm
  PartialOwner BlockMath BlockComplete ASeeds ASeedsFacts LogChecks SkipRule SkipRuleFacts Names NamesFacts Perm PermFacts SCC SCCFacts SCCStruct ControlFacts3 SCCTerm FilterSym Main2 StrategyFacts ControlFacts4 SkipRuleFacts2 SCCComplete SCCAttr BlockComplete2 ControlFacts5 Iso SkipSem ControlFacts6.
From BB Require Import Candidates Control PyLib PyLibSd PyLibPerc PySrcRetained PySrcRetainedFacts PySrcGreedyFacts.

(* translator tie: the function GENERATED from the current text of attractor_candidates.make_heuristic_retained_set (PySrcRetained.v: the child space with the fewest NFVS variables, its values on the NFVS, the majority value of the update function for the rest) is the model's Candidates.heuristic_retained for every network, node space, NFVS list and avoid list *)
Theorem C08_source_make_heuristic_retained_set : forall (N : net) (S : space) (nfvs : list nat) (avoid : list space), py_make_heuristic_retained_set N S nfvs avoid = Some (heuristic_retained N S nfvs avoid).
Proof. exact py_make_heuristic_retained_set_spec. Qed.

(* translator tie for asp_greedy_retained_set_optimization (generated in PySrcRetained.v; compute_fixed_point_reduced_STG = the next entry of the solver tape, the call logged): it runs the model's greedy_loop -- same solver calls in the same order, same retained set and candidates; the text needs one more unit of fuel (its `while not done` test after the last pass) *)
Theorem C08_source_greedy_optimization_of_model : forall (fuel : nat) (st : pst) (R : retained) (cands : list state) (avoid : list space) (st' : pst) (res : retained * list state), greedy_loop fuel st (length avoid =? 0) R cands = (st', Some res) -> py_asp_greedy_retained_set_optimization (S fuel) st R cands avoid = Some (st', Some res).
Proof. exact py_greedy_of_model. Qed.

Theorem C08_source_greedy_optimization_to_model : forall (fuel : nat) (st : pst) (R : retained) (cands : list state) (avoid : list space) (st' : pst) (res : retained * list state), py_asp_greedy_retained_set_optimization fuel st R cands avoid = Some (st', Some res) -> greedy_loop fuel st (length avoid =? 0) R cands = (st', Some res).
Proof. exact py_greedy_to_model. Qed.

(* the end-to-end statement *)
Theorem C08_pipeline_covers_given_nfvs : forall (fuel : nat) (N : net) (S : space) (avoid : list space) (nfvs : list nat) (Rinit : retained) (cfg : ccfg) (greedy simulation : bool) (tape : list (list state)) (stp : simtape) (res : list state) (log : list call), trap_space N S -> (forall a : space, In a avoid -> trap_space N a) -> NoDup nfvs -> (forall v : nat, In v nfvs -> v < nvars N) -> retained_total nfvs Rinit -> no_neg_walk N S nfvs -> (is_full S = false -> nfvs = [] -> avoid <> [] -> fixed_points_avoided N S avoid) -> compute_candidates fuel N S avoid nfvs Rinit cfg greedy simulation tape stp = (COk res, log) -> tape_ok N S avoid log tape -> walks_ok fuel N S avoid nfvs Rinit cfg greedy tape stp -> (forall c : state, In c res -> in_space c S = true) /\ covers N S avoid res.
Proof. exact candidates_cover_nfvs. Qed.

(* negative feedback vertex set => reduced fixed points hit every attractor *)
Theorem C08_nfvs_reduction : forall (N : net) (S : space) (avoid : list space) (nfvs : list nat), trap_space N S -> (forall a : space, In a avoid -> trap_space N a) -> NoDup nfvs -> (forall v : nat, In v nfvs -> v < nvars N) -> no_neg_walk N S nfvs -> reduction_hyp N S avoid nfvs.
Proof. exact nfvs_reduction. Qed.

Theorem C08_no_neg_walk_test_exact : forall (N : net) (S : list (option bool)) (U : list nat), length S = nvars N -> no_neg_walk_b N S U = true <-> no_neg_walk N S U.
Proof. exact no_neg_walk_b_spec. Qed.

Theorem C08_graph_test_implies_brute_force_test : forall (N : net) (S : space) (avoid : list space) (nfvs : list nat), trap_space N S -> (forall a : space, In a avoid -> trap_space N a) -> NoDup nfvs -> (forall v : nat, In v nfvs -> v < nvars N) -> no_neg_walk_b N S nfvs = true -> nfvs_reduction_ok_b N S avoid nfvs = true.
Proof. exact no_neg_walk_b_reduction. Qed.

Theorem C08_pipeline_covers : forall (fuel : nat) (N : net) (S : space) (avoid : list space) (nfvs : list nat) (Rinit : retained) (cfg : ccfg) (greedy simulation : bool) (tape : list (list state)) (stp : simtape) (res : list state) (log : list call), trap_space N S -> (forall a : space, In a avoid -> trap_space N a) -> NoDup nfvs -> (forall v : nat, In v nfvs -> v < nvars N) -> retained_total nfvs Rinit -> reduction_hyp N S avoid nfvs -> (is_full S = false -> nfvs = [] -> avoid <> [] -> fixed_points_avoided N S avoid) -> compute_candidates fuel N S avoid nfvs Rinit cfg greedy simulation tape stp = (COk res, log) -> tape_ok N S avoid log tape -> walks_ok fuel N S avoid nfvs Rinit cfg greedy tape stp -> (forall c : state, In c res -> in_space c S = true) /\ covers N S avoid res.
Proof. exact compute_candidates_covers_weak. Qed.

Theorem C08_pipeline_covers_nonempty_nfvs : forall (fuel : nat) (N : net) (S : space) (avoid : list space) (nfvs : list nat) (Rinit : retained) (cfg : ccfg) (greedy simulation : bool) (tape : list (list state)) (stp : simtape) (res : list state) (log : list call), trap_space N S -> (forall a : space, In a avoid -> trap_space N a) -> NoDup nfvs -> (forall v : nat, In v nfvs -> v < nvars N) -> retained_total nfvs Rinit -> reduction_hyp N S avoid nfvs -> is_full S = true \/ nfvs <> [] \/ avoid = [] -> compute_candidates fuel N S avoid nfvs Rinit cfg greedy simulation tape stp = (COk res, log) -> tape_ok N S avoid log tape -> walks_ok fuel N S avoid nfvs Rinit cfg greedy tape stp -> (forall c : state, In c res -> in_space c S = true) /\ covers N S avoid res.
Proof. exact compute_candidates_covers_nonempty. Qed.

(* every COk result is an early exit or the complete fixed-point list of a total retained assignment (then possibly simulated) *)
Theorem C08_pipeline_complete : forall (fuel : nat) (N : net) (S0 : space) (avoid : list space) (nfvs : list nat) (Rinit : retained) (cfg : ccfg) (greedy simulation : bool) (tape : list (list state)) (stp : simtape) (res : list state) (log : list call), NoDup nfvs -> retained_total nfvs Rinit -> compute_candidates fuel N S0 avoid nfvs Rinit cfg greedy simulation tape stp = (COk res, log) -> tape_ok N S0 avoid log tape -> is_full S0 = true /\ res = [full_state S0] \/ is_full S0 = false /\ nfvs = [] /\ avoid <> [] /\ res = [] \/ (exists (R : retained) (cands : list state), retained_total nfvs R /\ complete_for N S0 avoid R cands /\ compute_candidates fuel N S0 avoid nfvs Rinit cfg greedy false tape stp = (COk cands, log) /\ (c_limit cfg = 0 -> greedy = true /\ length cands < c_threshold cfg) /\ (res = cands \/ simulation = true /\ res = sim_rounds fuel avoid (nfree S0) cfg 1024 cands stp)).
Proof. exact compute_candidates_complete. Qed.

Theorem C08_limit_zero_never_truncates : forall (fuel : nat) (N : net) (S0 : space) (avoid : list space) (nfvs : list nat) (Rinit : retained) (cfg : ccfg) (greedy simulation : bool) (tape : list (list state)) (stp : simtape) (res : list state) (log : list call), NoDup nfvs -> retained_total nfvs Rinit -> c_limit cfg = 0 -> compute_candidates fuel N S0 avoid nfvs Rinit cfg greedy simulation tape stp = (COk res, log) -> tape_ok N S0 avoid log tape -> is_full S0 = true /\ res = [full_state S0] \/ is_full S0 = false /\ nfvs = [] /\ avoid <> [] /\ res = [] \/ greedy = true /\ (exists (R : retained) (cands : list state), retained_total nfvs R /\ complete_for N S0 avoid R cands /\ length cands < c_threshold cfg /\ (res = cands \/ simulation = true /\ res = sim_rounds fuel avoid (nfree S0) cfg 1024 cands stp)).
Proof. exact compute_candidates_limit0. Qed.

Theorem C08_greedy_keeps_complete : forall (fuel : nat) (N : net) (S : space) (avoid : list space) (nfvs : list nat) (T : list (list state)) (st : pst) (pm : bool) (R : retained) (cands : list state) (st' : pst) (R' : retained) (cands' : list state), retained_total nfvs R -> complete_for N S avoid R cands -> greedy_loop fuel st pm R cands = (st', Some (R', cands')) -> pinv T st -> tape_ok N S avoid (p_log st') T -> retained_total nfvs R' /\ complete_for N S avoid R' cands'.
Proof. exact greedy_loop_complete. Qed.

Theorem C08_simulation_avoid_covers : forall (N : net) (S : space) (avoid : list space), trap_space N S -> (forall a : space, In a avoid -> trap_space N a) -> forall (cands : list state) (walks : list (list state)) (res : list state) (w' : list (list state)), (forall c : state, In c cands -> in_space c S = true) -> covers N S avoid cands -> walks_for N cands walks -> sim_avoid avoid cands [] walks = (res, w') -> (forall c : state, In c res -> in_space c S = true) /\ covers N S avoid res.
Proof. exact sim_avoid_covers. Qed.

Theorem C08_simulation_minimal_covers : forall (N : net) (S : space) (avoid : list space), trap_space N S -> forall (iters : nat) (cands moves res m' : list state), (forall c : state, In c cands -> in_space c S = true) -> covers N S avoid cands -> sim_min_ok N iters cands moves -> sim_min iters cands moves = (res, m') -> (forall c : state, In c res -> in_space c S = true) /\ covers N S avoid res.
Proof. exact sim_min_covers. Qed.

Theorem C08_simulation_rounds_cover : forall (N : net) (S : space) (avoid : list space), trap_space N S -> (forall a : space, In a avoid -> trap_space N a) -> forall (rounds nfree : nat) (cfg : ccfg) (iters : nat) (cands : list state) (tp : simtape), (forall c : state, In c cands -> in_space c S = true) -> covers N S avoid cands -> sim_rounds_ok N rounds avoid nfree cfg iters cands tp -> (forall c : state, In c (sim_rounds rounds avoid nfree cfg iters cands tp) -> in_space c S = true) /\ covers N S avoid (sim_rounds rounds avoid nfree cfg iters cands tp).
Proof. exact sim_rounds_covers. Qed.

Theorem C08_reduction_check_exact : forall (N : net) (S : list (option bool)) (avoid : list space) (nfvs : list nat), length S = nvars N -> NoDup nfvs -> (forall v : nat, In v nfvs -> v < nvars N) -> nfvs_reduction_ok_b N S avoid nfvs = true <-> reduction_hyp N S avoid nfvs.
Proof. exact nfvs_reduction_ok_b_spec. Qed.

Theorem C08_empty_nfvs_needs_side_condition : exists (fuel : nat) (N : net) (S : space) (avoid : list space) (nfvs : list nat) (Rinit : retained) (cfg : ccfg) (greedy simulation : bool) (tape : list (list state)) (stp : simtape) (res : list state) (log : list call), trap_space N S /\ (forall a : space, In a avoid -> trap_space N a) /\ NoDup nfvs /\ (forall v : nat, In v nfvs -> v < nvars N) /\ retained_total nfvs Rinit /\ reduction_hyp N S avoid nfvs /\ compute_candidates fuel N S avoid nfvs Rinit cfg greedy simulation tape stp = (COk res, log) /\ tape_ok N S avoid log tape /\ walks_ok fuel N S avoid nfvs Rinit cfg greedy tape stp /\ ~ covers N S avoid res.
Proof. exact compute_candidates_covers_counterexample. Qed.

Theorem C08_check_cover_ok : forall (N : net) (S : space) (motifs : list space) (cands : list state), check_cover S (node_attractors_b N S motifs) cands = VOk <-> (forall c : state, In c cands -> in_space c S = true) /\ covers N S motifs cands.
Proof. exact check_cover_ok. Qed.

Theorem C08_reduced_fixed_points_program : forall (N : net) (pn : pnet) (R ensure : list (option bool)) (avoid : list (list (option bool))) (s : list bool), let n := nvars N in pn_wf n pn -> pn_faithful N pn -> length R = n -> length ensure = n -> (forall a : list (option bool), In a avoid -> length a = n) -> length s = n -> is_model (model_of_state s) (deadlock_program (reduce_pn pn R) ensure avoid) = true <-> In s (reduced_fixed_b N R ensure avoid).
Proof. exact deadlock_program_models. Qed.

Theorem C08_reduced_net_deadlocks : forall (N : net) (pn : pnet) (R : list (option bool)) (s : list bool), pn_faithful N pn -> length s = nvars N -> length R = nvars N -> (forall t : transition, In t (p_trans (reduce_pn pn R)) -> t_var t < nvars N -> enabled s t = false) <-> red_fixed_at N s 0 s R = true.
Proof. exact reduce_pn_enabled. Qed.

Theorem C08_node_attractors_sound : forall (N : net) (S : space) (motifs : list space) (A : list state), In A (node_attractors_b N S motifs) -> node_attr N S motifs (fun s : state => In s A).
Proof. exact node_attractors_b_sound. Qed.

Theorem C08_node_attractors_complete : forall (N : net) (S : space) (motifs : list space) (A : state -> Prop), node_attr N S motifs A -> exists L : list state, In L (node_attractors_b N S motifs) /\ (forall s : state, A s <-> In s L).
Proof. exact node_attractors_b_complete. Qed.

(* a non-empty closed set always contains an attractor, so a node whose candidates are empty must have all its attractors inside its successors *)
Theorem C08_empty_list_means_no_attractor : forall (N : net) (P : state -> Prop) (s : state), closed N P -> P s -> wf_state N s -> exists t : state, P t /\ in_attractor N t.
Proof. exact closed_contains_attractor. Qed.

Print Assumptions C08_source_make_heuristic_retained_set.
Print Assumptions C08_source_greedy_optimization_of_model.
Print Assumptions C08_source_greedy_optimization_to_model.
Print Assumptions C08_pipeline_covers_given_nfvs.
Print Assumptions C08_nfvs_reduction.
Print Assumptions C08_no_neg_walk_test_exact.
Print Assumptions C08_graph_test_implies_brute_force_test.
Print Assumptions C08_pipeline_covers.
Print Assumptions C08_pipeline_covers_nonempty_nfvs.
Print Assumptions C08_pipeline_complete.
Print Assumptions C08_limit_zero_never_truncates.
Print Assumptions C08_greedy_keeps_complete.
Print Assumptions C08_simulation_avoid_covers.
Print Assumptions C08_simulation_minimal_covers.
Print Assumptions C08_simulation_rounds_cover.
Print Assumptions C08_reduction_check_exact.
Print Assumptions C08_empty_nfvs_needs_side_condition.
Print Assumptions C08_check_cover_ok.
Print Assumptions C08_reduced_fixed_points_program.
Print Assumptions C08_reduced_net_deadlocks.
Print Assumptions C08_node_attractors_sound.
Print Assumptions C08_node_attractors_complete.
Print Assumptions C08_empty_list_means_no_attractor.
