(* C08 -- Attractor candidates cover every attractor under every option and limit setting

   PARTIAL.  Proved: the fixed points of the reduced transition graph that the candidate pipeline asks the ASP
   solver for are exactly Brute.reduced_fixed_b (deadlock_program_models, reduce_pn_enabled), and the cover
   predicate run on the implementation's candidate lists is exact (check_cover_ok).  NOT proved: that those
   fixed points cover every attractor when the retained variables form a negative feedback vertex set
   (a signed-graph argument that is not formalised), and the branch structure of compute_attractor_candidates
   (greedy flips, regeneration, simulation), which is decided by check_cover on every returned list.

   This file contains only restatements closed by `exact` (statements produced by Coq's own
   `Check` of the library lemma) plus non-vacuity Examples, each followed by Print Assumptions. *)
From Coq Require Import List Bool Arith NArith Lia Relations Permutation.
Import ListNotations.
From BB Require Import BN Brute SpaceFacts TrapFacts PercolateFacts AttractorFacts Diagram Invariants Checks Filter
  Strict PetriNet Control Meta FilterFacts PetriNetFacts TrappistFacts DiagramStruct DiagramSem1 DiagramCache
  DiagramDepth DiagramComplete Termination ControlFacts MetaFacts.

Theorem C08_check_cover_ok : forall (N : net) (S : space) (motifs : list space) (cands : list state), check_cover S (node_attractors_b N S motifs) cands = VOk <-> (forall c : state, In c cands -> in_space c S = true) /\ covers N S motifs cands.
Proof. exact check_cover_ok. Qed.

Theorem C08_reduced_fixed_points_program : forall (N : net) (pn : pnet) (R ensure : list (option bool)) (avoid : list (list (option bool))) (s : list bool), let n := nvars N in pn_wf n pn -> pn_faithful N pn -> length R = n -> length ensure = n -> (forall a : list (option bool), In a avoid -> length a = n) -> length s = n -> is_model (model_of_state s) (deadlock_program (reduce_pn pn R) ensure avoid) = true <-> In s (reduced_fixed_b N R ensure avoid).
Proof. exact deadlock_program_models. Qed.

Theorem C08_reduced_net_deadlocks : forall (N : net) (pn : pnet) (R : list (option bool)) (s : list bool), pn_faithful N pn -> length s = nvars N -> length R = nvars N -> (forall t : transition, In t (p_trans (reduce_pn pn R)) -> t_var t < nvars N -> enabled s t = false) <-> red_fixed_at N s 0 s R = true.
Proof. exact reduce_pn_enabled. Qed.

Theorem C08_node_attractors_sound : forall (N : net) (S : space) (motifs : list space) (A : list state), In A (node_attractors_b N S motifs) -> node_attr N S motifs (fun s : state => In s A).
Proof. exact node_attractors_b_sound. Qed.

Theorem C08_node_attractors_complete : forall (N : net) (S : space) (motifs : list space) (A : state -> Prop), node_attr N S motifs A -> exists L : list state, In L (node_attractors_b N S motifs) /\ (forall s : state, A s <-> In s L).
Proof. exact node_attractors_b_complete. Qed.

(* a non-empty closed set always contains an attractor, so a node whose candidates are empty must have all its attractors inside its successors *)
Theorem C08_empty_list_means_no_attractor : forall (N : net) (P : state -> Prop) (s : state), closed N P -> P s -> wf_state N s -> exists t : state, P t /\ in_attractor N t.
Proof. exact closed_contains_attractor. Qed.

Print Assumptions C08_check_cover_ok.
Print Assumptions C08_reduced_fixed_points_program.
Print Assumptions C08_reduced_net_deadlocks.
Print Assumptions C08_node_attractors_sound.
Print Assumptions C08_node_attractors_complete.
Print Assumptions C08_empty_list_means_no_attractor.
