(* C10 -- Petri-net encoding and network reduction preserve the asynchronous dynamics

   Model: PetriNet.net_to_pn (from an implicant tape with the cover contract), restrict_pn, reduce_pn.
   pn_faithful_b is the exact executable test applied to the REAL Petri nets on every run.

   This file contains only restatements closed by `exact` (statements produced by Coq's own
   `Check` of the library lemma) plus non-vacuity Examples, each followed by Print Assumptions. *)
From Coq Require Import List Bool Arith NArith Lia Relations Permutation.
Import ListNotations.
From BB Require Import BN Brute SpaceFacts TrapFacts PercolateFacts AttractorFacts Diagram Invariants Checks Filter
  Strict PetriNet Control Meta FilterFacts PetriNetFacts TrappistFacts DiagramStruct DiagramSem1 DiagramCache
  DiagramDepth DiagramComplete Termination ControlFacts MetaFacts Candidates StrictFacts MinExpandFacts CandidatesFacts SymbolicTest SymbolicTestFacts Signed ReductionFacts ControlFacts2 Main Blocks BlocksFacts ObsFacts OwnerFacts CandidatesTerm
  PartialOwner BlockMath BlockComplete ASeeds ASeedsFacts LogChecks SkipRule SkipRuleFacts Names NamesFacts Perm PermFacts SCC SCCFacts SCCStruct ControlFacts3 SCCTerm FilterSym Main2 StrategyFacts ControlFacts4 SkipRuleFacts2 SCCComplete SCCAttr BlockComplete2 ControlFacts5 Iso SkipSem ControlFacts6.
From BB Require Import PyLib PySrcBase PySrcPlace PySrcPlaceFacts.

Theorem C10_net_to_pn_faithful : forall (N : net) (impl : nat -> bool -> list space), impl_wf (nvars N) impl -> impl_cover N impl -> pn_faithful N (net_to_pn (nvars N) impl).
Proof. exact net_to_pn_faithful. Qed.

Theorem C10_pn_faithful_b_spec : forall (N : net) (S : list (option bool)) (pn : pnet), length S = nvars N -> pn_faithful_b N S pn = true <-> pn_faithful_on N S pn.
Proof. exact pn_faithful_b_spec. Qed.

(* firings of the net = asynchronous transitions *)
Theorem C10_pn_faithful_trans : forall (N : net) (pn : pnet) (s : list bool) (t : state), pn_faithful N pn -> length s = nvars N -> trans N s t <-> (exists tr : transition, In tr (p_trans pn) /\ t_var tr < nvars N /\ enabled s tr = true /\ t = fire s tr).
Proof. exact pn_faithful_trans. Qed.

Theorem C10_restrict_faithful : forall (N : net) (S T : list (option bool)) (pn : pnet), length S = nvars N -> length T = nvars N -> (forall t : transition, In t (p_trans pn) -> length (t_cond t) = nvars N) -> subspace S T = true -> pn_faithful_on N T pn -> pn_faithful_on N S (restrict_pn pn S).
Proof. exact restrict_faithful. Qed.

Theorem C10_restrict_vars : forall (pn : pnet) (S : space) (v : nat), In v (p_vars (restrict_pn pn S)) <-> In v (p_vars pn) /\ nth v S None = None.
Proof. exact restrict_vars. Qed.

Theorem C10_restrict_no_fixed : forall (pn : pnet) (S : space) (t : transition), In t (p_trans (restrict_pn pn S)) -> nth (t_var t) S None = None /\ (forall (v : nat) (b : bool), In (v, b) (cond_places t) -> nth v S None = None).
Proof. exact restrict_no_fixed. Qed.

(* restriction through the parent's net *)
Theorem C10_restrict_compose : forall (pn : pnet) (S S' : space), subspace S' S = true -> (forall t : transition, In t (p_trans pn) -> length (t_cond t) = length S) -> restrict_pn (restrict_pn pn S) S' = restrict_pn pn S'.
Proof. exact restrict_compose. Qed.

Theorem C10_pn_sources_spec : forall (N : net) (pn : pnet) (v : nat), pn_faithful N pn -> p_vars pn = seq 0 (nvars N) -> v < nvars N -> (forall t : transition, In t (p_trans pn) -> exists s : list bool, length s = nvars N /\ enabled s t = true) -> In v (pn_sources pn) <-> is_source_b N v = true.
Proof. exact pn_sources_spec. Qed.

Theorem C10_reduce_pn_enabled : forall (N : net) (pn : pnet) (R : list (option bool)) (s : list bool), pn_faithful N pn -> length s = nvars N -> length R = nvars N -> (forall t : transition, In t (p_trans (reduce_pn pn R)) -> t_var t < nvars N -> enabled s t = false) <-> red_fixed_at N s 0 s R = true.
Proof. exact reduce_pn_enabled. Qed.

(* percolating/fixing sources keeps the dynamics on the subspace *)
Theorem C10_fix_net_trap_space : forall (N : net) (v S : list (option bool)), length v = nvars N -> length S = nvars N -> (forall (i : nat) (b : bool), nth i v None = Some b -> is_source_b N i = true) -> subspace S v = true -> trap_space (fix_net N v) S <-> trap_space N S.
Proof. exact fix_net_trap_space. Qed.

Theorem C10_fix_net_percolate : forall (N : net) (v S : list (option bool)), length v = nvars N -> length S = nvars N -> (forall (i : nat) (b : bool), nth i v None = Some b -> is_source_b N i = true) -> subspace S v = true -> percolate_b (fix_net N v) S = percolate_b N S.
Proof. exact fix_net_percolate. Qed.

(* place names b0_/b1_ map back to (variable, value) *)
Theorem C10_place_round_trip : forall (v : name) (b : bool), place_to_variable (place_name v b) = Some (v, b).
Proof. exact place_round_trip. Qed.

Theorem C10_place_name_inj : forall (v : name) (b : bool) (w : name) (c : bool), place_name v b = place_name w c -> v = w /\ b = c.
Proof. exact place_name_inj. Qed.

(* translator tie: generated from the current source of petri_net_translation.variable_to_place *)
Theorem C10_source_variable_to_place : forall (v : pstr) (b : bool), py_variable_to_place v b = Some (place_name v b).
Proof. exact py_variable_to_place_spec. Qed.

Theorem C10_source_place_to_variable : forall p : pstr, py_place_to_variable p = place_to_variable p.
Proof. exact py_place_to_variable_spec. Qed.

Print Assumptions C10_net_to_pn_faithful.
Print Assumptions C10_pn_faithful_b_spec.
Print Assumptions C10_pn_faithful_trans.
Print Assumptions C10_restrict_faithful.
Print Assumptions C10_restrict_vars.
Print Assumptions C10_restrict_no_fixed.
Print Assumptions C10_restrict_compose.
Print Assumptions C10_pn_sources_spec.
Print Assumptions C10_reduce_pn_enabled.
Print Assumptions C10_fix_net_trap_space.
Print Assumptions C10_fix_net_percolate.
Print Assumptions C10_place_round_trip.
Print Assumptions C10_place_name_inj.
Print Assumptions C10_source_variable_to_place.
Print Assumptions C10_source_place_to_variable.
