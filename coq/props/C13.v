(* C13 -- Every operation terminates within bounded work

   Model: every while-loop of the expansion code is a fuelled loop returning the distinguished result RFuel
   when the fuel runs out; the theorems give explicit fuel bounds in terms of max_nodes N = 3^n.
   symbolic_test_terminates bounds the interleaved reachability of symbolic_attractor_test (with the progress
   fix 2159c02) for every heuristic tape; noforce_can_stall is the formal record of the repaired defect: without
   the fix a tape that always declines makes the loop run forever on a 3-variable network.
   The candidate pipeline's loops (greedy flips, simulation rounds) and the block expansion have explicit bounds too.
   The attractor-seed expansion terminates within 2 * 3^n + 3 iterations (expand_aseeds_terminates); the source-SCC strategy
   within n + 2 levels at every nesting depth (expand_scc_terminates: levels descend strictly, every nesting level loses a
   free variable), its two assertions can never fire (expand_scc_no_assert) and its edges stay strict (expand_scc_EdgeStrict).

   This file contains only restatements closed by `exact` (statements produced by Coq's own
   `Check` of the library lemma) plus non-vacuity Examples, each followed by Print Assumptions. *)
From Coq Require Import List Bool Arith NArith Lia Relations Permutation.
Import ListNotations.
From BB Require Import BN Brute SpaceFacts TrapFacts PercolateFacts AttractorFacts Diagram Invariants Checks Filter
  Strict PetriNet Control Meta FilterFacts PetriNetFacts TrappistFacts DiagramStruct DiagramSem1 DiagramCache
  DiagramDepth DiagramComplete Termination ControlFacts MetaFacts Candidates StrictFacts MinExpandFacts CandidatesFacts SymbolicTest SymbolicTestFacts Signed ReductionFacts ControlFacts2 Main Blocks BlocksFacts ObsFacts OwnerFacts CandidatesTerm
  PartialOwner BlockMath BlockComplete ASeeds ASeedsFacts LogChecks SkipRule SkipRuleFacts Names NamesFacts Perm PermFacts SCC SCCFacts SCCStruct ControlFacts3 SCCTerm FilterSym Main2 StrategyFacts ControlFacts4 SkipRuleFacts2 SCCComplete SCCAttr BlockComplete2 ControlFacts5 Iso SkipSem ControlFacts6.
From BB Require Import PyLib PyLibSd PySrcSdBase PySrcSd PySrcSdFacts PyLibSd PySrcSdBase PySrcSdTarget PySrcSdTargetFacts PyLib PyLibSd PyLibCore PyLibSd2 PySrcSdBase PySrcSdMin PySrcSdMinFacts Candidates Blocks ASeeds PySrcSdASeeds PySrcSdASeedsFacts PySrcTermFacts PyLib PyLibSd PyLibCore PyLibSd2 PyLibScc PySrcSdBase PySrcSdScc PySrcSdSccFacts Control PyLibControl PySrcSdSccMain PySrcSdSccMainFacts PyLibBlocks PySrcSdBlocks PySrcSdBlocksFacts PySrcApi PySrcEndToEndScc PySrcEndToEndBlocks.

(* the loops of the strategy drivers AS WRITTEN IN THE SOURCE (generated functions, public wrappers included) end within the fuel bound of the model *)
Theorem C13_source_expand_bfs_terminates : forall (fuel : nat) (N : net) (cfg : config) (d : sd) (start lvl sz : option nat), SWF N d -> valid_start d start = true -> max_nodes N + 2 <= fuel -> snd (py_api_expand_bfs fuel N cfg d start lvl sz) <> RFuel.
Proof. exact py_expand_bfs_terminates. Qed.

Theorem C13_source_expand_dfs_terminates : forall (fuel : nat) (N : net) (cfg : config) (d : sd) (start stk sz : option nat), SWF N d -> valid_start d start = true -> 2 * max_nodes N + 3 <= fuel -> snd (py_api_expand_dfs fuel N cfg d start stk sz) <> RFuel.
Proof. exact py_expand_dfs_terminates. Qed.

Theorem C13_source_expand_to_target_terminates : forall (fuel : nat) (N : net) (cfg : config) (d : sd) (t : space) (sz : option nat), SWF N d -> max_nodes N + 2 <= fuel -> snd (py_api_expand_to_target fuel N cfg d t sz) <> RFuel.
Proof. exact py_expand_to_target_terminates. Qed.

Theorem C13_source_expand_minimal_spaces_terminates : forall (fuel : nat) (N : net) (cfg : config) (d : sd) (start sz : option nat) (skip : bool) (tape : list space), SWF N d -> TrapNodes N d -> EdgeStrict d -> valid_start d start = true -> perm_of tape (min_traps_b N (n_space (get d (start_of start)))) = true -> 2 * max_nodes N + 3 <= fuel -> snd (py_api_expand_minimal_spaces fuel N cfg d tape start sz skip) <> RFuel.
Proof. exact py_expand_minimal_spaces_terminates. Qed.

Theorem C13_source_expand_attractor_seeds_terminates : forall (fuel : nat) (N : net) (cfg : config) (d : sd) (sz : option nat) (min_tape : list space) (tape : list (list nat)), SWF N d -> TrapNodes N d -> EdgeStrict d -> perm_of min_tape (min_traps_b N (n_space (get d 0))) = true -> 2 * max_nodes N + 3 <= fuel -> snd (py_api_expand_attractor_seeds fuel N cfg d min_tape tape sz) <> RFuel.
Proof. exact py_expand_attractor_seeds_terminates. Qed.

Theorem C13_size_bound : forall (N : net) (d : sd), SWF N d -> size d <= max_nodes N.
Proof. exact size_bound. Qed.

Theorem C13_bfs_terminates : forall (fuel : nat) (N : net) (cfg : config) (d : sd) (start lvl sz : option nat), SWF N d -> valid_start d start = true -> max_nodes N + 2 <= fuel -> snd (expand_bfs fuel N cfg d start lvl sz) <> RFuel.
Proof. exact bfs_terminates. Qed.

Theorem C13_dfs_terminates : forall (fuel : nat) (N : net) (cfg : config) (d : sd) (start stk sz : option nat), SWF N d -> valid_start d start = true -> 2 * max_nodes N + 3 <= fuel -> snd (expand_dfs fuel N cfg d start stk sz) <> RFuel.
Proof. exact dfs_terminates. Qed.

Theorem C13_target_terminates : forall (fuel : nat) (N : net) (cfg : config) (d : sd) (t : space) (sz : option nat), SWF N d -> max_nodes N + 2 <= fuel -> snd (expand_to_target fuel N cfg d t sz) <> RFuel.
Proof. exact target_terminates. Qed.

Theorem C13_min_terminates : forall (fuel : nat) (N : net) (cfg : config) (d : sd) (start sz : option nat) (skip : bool) (tape : list space), SWF N d -> valid_start d start = true -> 2 * max_nodes N + 3 <= fuel -> snd (expand_min fuel N cfg d start sz skip tape) <> RFuel.
Proof. exact min_terminates. Qed.

Theorem C13_step_terminates : forall (fuel : nat) (N : net) (cfg : config) (d : sd) (o : op), SWF N d -> 2 * max_nodes N + 3 <= fuel -> snd (step fuel N cfg d o) <> RFuel.
Proof. exact step_terminates. Qed.

Theorem C13_run_terminates : forall (fuel : nat) (N : net) (cfg : config) (h : list op) (d : sd) (r : result), 2 * max_nodes N + 3 <= fuel -> In (d, r) (run fuel N cfg (init N) h) -> r <> RFuel.
Proof. exact run_terminates. Qed.

(* depth propagation stops by itself (acyclicity) *)
Theorem C13_raise_depth_fuel_irrelevant : forall (N : net) (d : sd) (c dp f1 f2 : nat), SWF N d -> EdgeStrict d -> c < size d -> size d <= f1 -> size d <= f2 -> raise_depth f1 d c dp = raise_depth f2 d c dp.
Proof. exact raise_depth_fuel_irrelevant. Qed.

Theorem C13_strict_loop_fuel_enough : forall (N : net) (order : list nat) (X : space) (f : nat), length X = nvars N -> S (nvars N) <= f -> strict_loop f N order X (top_space (nvars N)) = strict_loop (S (nvars N)) N order X (top_space (nvars N)).
Proof. exact strict_loop_fuel_enough. Qed.

(* the reachability worklist finishes within 2^n iterations *)
Theorem C13_reach_list_complete : forall (N : net) (s t : state), wf_state N s -> reach N s t -> In t (reach_list N s).
Proof. exact reach_list_complete. Qed.

Theorem C13_block_expansion_terminates : forall (fuel : nat) (N : net) (cfg : config) (d : sd) (maa opt : bool) (sz : option nat) (tape : list bool), SWF N d -> max_nodes N + 2 <= fuel -> snd (expand_block fuel N cfg d maa opt sz tape) <> RFuel.
Proof. exact expand_block_terminates. Qed.

(* candidate pipeline: greedy flips *)
Theorem C13_greedy_loop_terminates : forall (f1 f2 : nat) (st : pst) (pm : bool) (R : retained) (cands : list state), length cands < f1 -> length cands < f2 -> greedy_loop f1 st pm R cands = greedy_loop f2 st pm R cands.
Proof. exact greedy_loop_fuel_irrelevant. Qed.

Theorem C13_simulation_rounds_terminate : forall (r1 r2 : nat) (avoid : list space) (nfree : nat) (cfg : ccfg) (iters : nat) (cands : list state) (tp : simtape), 1 <= iters -> sim_bound cfg nfree iters cands <= r1 -> sim_bound cfg nfree iters cands <= r2 -> sim_rounds r1 avoid nfree cfg iters cands tp = sim_rounds r2 avoid nfree cfg iters cands tp.
Proof. exact sim_rounds_fuel_irrelevant. Qed.

Theorem C13_candidate_pipeline_terminates : forall (f1 f2 : nat) (N : net) (S0 : list (option bool)) (avoid : list space) (nfvs : list nat) (Rinit : retained) (cfg : ccfg) (greedy simulation : bool) (tape : list (list state)) (stp : simtape), (forall l : list state, In l tape -> length l <= 2 ^ length S0) -> let B := 2 ^ length S0 + c_budget cfg * nfree S0 + 4 in B <= f1 -> B <= f2 -> compute_candidates f1 N S0 avoid nfvs Rinit cfg greedy simulation tape stp = compute_candidates f2 N S0 avoid nfvs Rinit cfg greedy simulation tape stp.
Proof. exact compute_candidates_fuel_irrelevant. Qed.

Theorem C13_symbolic_test_terminates : forall (fuel : nat) (N : net) (S : space) (pivot : state) (avoid : list state) (bools : list bool) (orders : list (list nat)), trap_space N S -> in_space pivot S = true -> (forall a : state, In a avoid -> in_space a S = true) -> NoDup avoid -> symbolic_test_fuel S <= fuel -> symbolic_test fuel N S pivot avoid bools orders <> TFuel.
Proof. exact symbolic_test_terminates. Qed.

(* defect D6, formally *)
Theorem C13_unfixed_loop_can_stall : exists (N : net) (S : space) (pivot : state) (avoid : list state), forall fuel : nat, main_loop_noforce fuel N (states_of S) {| t_reach := [pivot]; t_avoid := Some avoid; t_sat := []; t_rest := rev (free_vars S); t_bools := [] |} [] = TFuel.
Proof. exact noforce_can_stall. Qed.

Theorem C13_fixed_loop_answers_on_that_instance : symbolic_test 5 stall_net stall_space stall_pivot stall_avoid [] [] = TSome [[false; false; false]; [true; false; false]; [true; true; false]; [false; true; false]].
Proof. exact stall_fixed_answer. Qed.

Theorem C13_aseeds_expansion_terminates : forall (fuel : nat) (N : net) (cfg : config) (d : sd) (sz : option nat) (min_tape : list space) (tape : list (list nat)), SWF N d -> 2 * max_nodes N + 3 <= fuel -> snd (expand_aseeds fuel N cfg d sz min_tape tape) <> RFuel.
Proof. exact expand_aseeds_terminates. Qed.

(* the rename loop of sanitize_network_names needs at most one more round than there are variables *)
Theorem C13_sanitize_clash_loop_terminates : forall (cur : list name) (nm : name), exists k : nat, fresh (S (length cur)) cur nm = Some (repeat 95%N k ++ nm) /\ k <= length cur /\ ~ In (repeat 95%N k ++ nm) cur /\ (forall j : nat, j < k -> In (repeat 95%N j ++ nm) cur).
Proof. exact fresh_total. Qed.

(* source-SCC strategy: fuel n + 2 always suffices *)
Theorem C13_scc_expansion_terminates : forall (fuel : nat) (N : net) (cfg : config) (d : sd) (maa : bool) (tape : tape_t), 1 <= max_motifs cfg -> SWF N d -> TrapNodes N d -> EdgeStrict d -> nvars N + 2 <= fuel -> snd (expand_scc fuel N cfg d maa tape) <> RFuel.
Proof. exact expand_scc_terminates. Qed.

(* the generated expand_block with fuel 3^n + 2 does not run out of fuel on any well-formed diagram *)
Theorem C13_source_text_expand_block_terminates : forall (fuel : nat) (N : net) (cfg : config) (d : sd) (tape : list bool) (maa : bool) (sz : option nat) (opt exact : bool), SWF N d -> max_nodes N + 2 <= fuel -> forall d0 : sd, py_api_expand_block fuel N cfg d tape maa sz opt exact <> SFuel d0.
Proof. exact py_api_expand_block_terminates. Qed.

(* the same for the SOURCE TEXT: the generated public method expand_scc on a fresh diagram with fuel n + 2 neither runs out of fuel nor trips one of its assertions *)
Theorem C13_source_text_expand_scc_terminates : forall (fuel : nat) (N : net) (cfg : config) (maa : bool) (tape : list (option bool)), 1 <= max_motifs cfg -> nvars N + 2 <= fuel -> (forall d : sd, py_api_expand_scc fuel N cfg (init N) tape maa <> SFuel d) /\ (forall d : sd, py_api_expand_scc fuel N cfg (init N) tape maa <> SRaise d (RRaised ErrAssert)).
Proof. exact py_api_expand_scc_terminates. Qed.

(* neither assertion of the strategy can fail *)
Theorem C13_scc_expansion_no_assert : forall (fuel : nat) (N : net) (cfg : config) (d : sd) (maa : bool) (tape : tape_t), 1 <= max_motifs cfg -> SWF N d -> TrapNodes N d -> EdgeStrict d -> snd (expand_scc fuel N cfg d maa tape) <> RRaised ErrAssert.
Proof. exact expand_scc_no_assert. Qed.

Theorem C13_scc_expansion_edge_strict : forall (fuel : nat) (N : net) (cfg : config) (d : sd) (maa : bool) (tape : tape_t), 1 <= max_motifs cfg -> SWF N d -> TrapNodes N d -> EdgeStrict d -> EdgeStrict (fst (expand_scc fuel N cfg d maa tape)).
Proof. exact expand_scc_EdgeStrict. Qed.

(* the candidate filter with the real reachability procedure never runs out of fuel *)
Theorem C13_symbolic_filter_total : forall (fuel : nat) (N : net) (S : space) (seeds_only : bool) (motifs : list (list (option bool))) (cands : list state) (tapes : sym_tape), trap_space N S -> (forall M : list (option bool), In M motifs -> length M = nvars N /\ subspace M S = true) -> (forall c : state, In c cands -> in_space c S = true) -> NoDup cands -> symbolic_test_fuel S <= fuel -> compute_attractors_sym fuel N S seeds_only motifs cands tapes <> None.
Proof. exact compute_attractors_sym_total. Qed.

Print Assumptions C13_source_expand_bfs_terminates.
Print Assumptions C13_source_expand_dfs_terminates.
Print Assumptions C13_source_expand_to_target_terminates.
Print Assumptions C13_source_expand_minimal_spaces_terminates.
Print Assumptions C13_source_expand_attractor_seeds_terminates.
Print Assumptions C13_size_bound.
Print Assumptions C13_bfs_terminates.
Print Assumptions C13_dfs_terminates.
Print Assumptions C13_target_terminates.
Print Assumptions C13_min_terminates.
Print Assumptions C13_step_terminates.
Print Assumptions C13_run_terminates.
Print Assumptions C13_raise_depth_fuel_irrelevant.
Print Assumptions C13_strict_loop_fuel_enough.
Print Assumptions C13_reach_list_complete.
Print Assumptions C13_block_expansion_terminates.
Print Assumptions C13_greedy_loop_terminates.
Print Assumptions C13_simulation_rounds_terminate.
Print Assumptions C13_candidate_pipeline_terminates.
Print Assumptions C13_symbolic_test_terminates.
Print Assumptions C13_unfixed_loop_can_stall.
Print Assumptions C13_fixed_loop_answers_on_that_instance.
Print Assumptions C13_aseeds_expansion_terminates.
Print Assumptions C13_sanitize_clash_loop_terminates.
Print Assumptions C13_scc_expansion_terminates.
Print Assumptions C13_source_text_expand_block_terminates.
Print Assumptions C13_source_text_expand_scc_terminates.
Print Assumptions C13_scc_expansion_no_assert.
Print Assumptions C13_scc_expansion_edge_strict.
Print Assumptions C13_symbolic_filter_total.
