(* C12 -- Attractor sets are the complete attractors and the symbolic fallback agrees

   Model: Filter.compute_attractors_filter returns, with the seeds, their reachable sets; check_sets is the
   predicate run on the implementation's sets (enumerated from the BDDs).  SymbolicTest.symbolic_test models the
   interleaved forward/backward reachability of symbolic_attractor_test for EVERY heuristic tape and variable
   order; symbolic_test_meets_spec shows it meets the contract (attractor_test) the filter theorem uses, and every
   recorded call of the real function is checked against that contract.  PARTIAL: the fully symbolic fallback is
   library code (AEON xie_beerel); it is judged through check_seeds / check_sets against the brute-force
   attractors, which makes it agree with the default method.

   This file contains only restatements closed by `exact` (statements produced by Coq's own
   `Check` of the library lemma) plus non-vacuity Examples, each followed by Print Assumptions. *)
From Coq Require Import List Bool Arith NArith Lia Relations Permutation.
Import ListNotations.
From BB Require Import BN Brute SpaceFacts TrapFacts PercolateFacts AttractorFacts Diagram Invariants Checks Filter
  Strict PetriNet Control Meta FilterFacts PetriNetFacts TrappistFacts DiagramStruct DiagramSem1 DiagramCache
  DiagramDepth DiagramComplete Termination ControlFacts MetaFacts Candidates StrictFacts MinExpandFacts CandidatesFacts SymbolicTest SymbolicTestFacts Signed ReductionFacts ControlFacts2 Main Blocks BlocksFacts ObsFacts OwnerFacts CandidatesTerm
  PartialOwner BlockMath BlockComplete ASeeds ASeedsFacts LogChecks SkipRule SkipRuleFacts Names NamesFacts Perm PermFacts SCC SCCFacts SCCStruct ControlFacts3 SCCTerm FilterSym Main2 StrategyFacts ControlFacts4 SkipRuleFacts2 SCCComplete SCCAttr BlockComplete2 ControlFacts5 Iso SkipSem ControlFacts6.
From BB Require Import Filter PySrcFilter PySrcFilterFacts.

(* translator tie for the candidate filter: the function GENERATED from the current text of attractor_symbolic.compute_attractors_symbolic (loop translated statement by statement, preamble / postamble compared with reference texts) is the model's compute_attractors_filter: seeds and sets are produced together, in candidate order *)
Theorem C12_source_compute_attractors_symbolic : forall (N : net) (seeds_only : bool) (motifs : list space) (cands : list state), py_compute_attractors_symbolic N seeds_only motifs cands = Some (compute_attractors_filter N seeds_only motifs cands).
Proof. exact py_compute_attractors_symbolic_spec. Qed.

(* C12 / C01 for the SOURCE TEXT of the filter: given covering, duplicate-free candidates inside the node, the seeds returned by the generated compute_attractors_symbolic are one-to-one with the node's own attractors and the i-th set is exactly the reachable set (= the attractor) of the i-th seed *)
Theorem C12_source_text_filter_exact : forall (N : net) (S : space) (motifs : list space) (cands seeds : list state) (sets : list (list state)), trap_space N S -> (forall M : space, In M motifs -> trap_space N M /\ subspace M S = true) -> NoDup cands -> (forall c : state, In c cands -> in_space c S = true) -> covers N S motifs cands -> py_compute_attractors_symbolic N false motifs cands = Some (seeds, Some sets) -> one_to_one N S motifs seeds /\ length sets = length seeds /\ (forall (i : nat) (s : state) (X : list state), nth_error seeds i = Some s -> nth_error sets i = Some X -> forall t : state, In t X <-> reach N s t).
Proof. exact py_compute_attractors_symbolic_exact. Qed.

(* ... and with seeds_only=True (the unchecked-last-candidate shortcut included) the seeds are still one-to-one *)
Theorem C12_source_text_filter_seeds_only : forall (N : net) (S : space) (motifs : list space) (cands seeds : list state) (osets : option (list (list state))), trap_space N S -> (forall M : space, In M motifs -> trap_space N M /\ subspace M S = true) -> NoDup cands -> (forall c : state, In c cands -> in_space c S = true) -> covers N S motifs cands -> py_compute_attractors_symbolic N true motifs cands = Some (seeds, osets) -> one_to_one N S motifs seeds.
Proof. exact py_compute_attractors_symbolic_seeds_only. Qed.

Theorem C12_check_sets_ok : forall (N : net) (S : space) (motifs : list space) (seeds : list state) (sets : list (list state)), check_sets (node_attractors_b N S motifs) seeds sets = VOk -> length sets = length seeds /\ (forall (i : nat) (s : state) (X : list state), nth_error seeds i = Some s -> nth_error sets i = Some X -> (forall t : state, In t X <-> reach N s t) /\ in_attractor N s).
Proof. exact check_sets_ok. Qed.

(* sets are, in seed order, the reachable sets of the seeds = their attractors *)
Theorem C12_filter_exact : forall (N : net) (S : space) (motifs : list space) (cands seeds : list state) (sets : list (list state)), trap_space N S -> (forall M : space, In M motifs -> trap_space N M /\ subspace M S = true) -> NoDup cands -> (forall c : state, In c cands -> in_space c S = true) -> covers N S motifs cands -> compute_attractors_filter N false motifs cands = (seeds, Some sets) -> one_to_one N S motifs seeds /\ length sets = length seeds /\ (forall (i : nat) (s : state) (X : list state), nth_error seeds i = Some s -> nth_error sets i = Some X -> forall t : state, In t X <-> reach N s t).
Proof. exact filter_exact. Qed.

Theorem C12_reach_list_sound : forall (N : net) (s t : state), In t (reach_list N s) -> reach N s t.
Proof. exact reach_list_sound. Qed.

Theorem C12_reach_list_complete : forall (N : net) (s t : state), wf_state N s -> reach N s t -> In t (reach_list N s).
Proof. exact reach_list_complete. Qed.

(* an attractor is the reachable set of any of its states *)
Theorem C12_attractor_is_class : forall (N : net) (A : state -> Prop) (s : state), attractor N A -> A s -> forall t : state, A t <-> reach N s t.
Proof. exact attractor_is_class. Qed.

(* the interleaved reachability returns exactly the reachable set ... *)
Theorem C12_symbolic_test_some : forall (fuel : nat) (N : net) (S : space) (pivot : state) (avoid : list state) (bools : list bool) (orders : list (list nat)) (R : list state), trap_space N S -> in_space pivot S = true -> (forall a : state, In a avoid -> in_space a S = true) -> symbolic_test fuel N S pivot avoid bools orders = TSome R -> (forall t : state, In t R <-> reach N pivot t) /\ (forall t : state, In t R -> ~ In t avoid).
Proof. exact symbolic_test_some. Qed.

(* ... or None exactly when an avoid state is reachable, for every heuristic tape *)
Theorem C12_symbolic_test_none : forall (fuel : nat) (N : net) (S : space) (pivot : state) (avoid : list state) (bools : list bool) (orders : list (list nat)), trap_space N S -> in_space pivot S = true -> (forall a : state, In a avoid -> in_space a S = true) -> symbolic_test fuel N S pivot avoid bools orders = TNone -> exists t : state, reach N pivot t /\ In t avoid.
Proof. exact symbolic_test_none. Qed.

Theorem C12_symbolic_test_meets_spec : forall (fuel : nat) (N : net) (S : space) (pivot : state) (avoid_spaces : list space) (avoid_states : list state) (bools : list bool) (orders : list (list nat)), trap_space N S -> in_space pivot S = true -> let a := {| av_spaces := avoid_spaces; av_states := avoid_states |} in let explicit := filter (in_avoid a) (states_of S) in match symbolic_test fuel N S pivot explicit bools orders with | TNone => attractor_test N pivot a = None | TSome R => exists r : list state, attractor_test N pivot a = Some r /\ (forall t : state, In t R <-> In t r) | TFuel => True end.
Proof. exact symbolic_test_meets_spec. Qed.

(* the filter run with the model of symbolic_attractor_test (any heuristic tape) returns the same seeds in the same order and the same sets *)
Theorem C12_filter_with_symbolic_test_agrees : forall (fuel : nat) (N : net) (S : space) (seeds_only : bool) (motifs : list (list (option bool))) (cands : list state) (tapes : sym_tape) (seeds : list state) (sets : option (list (list state))), trap_space N S -> (forall M : list (option bool), In M motifs -> length M = nvars N /\ subspace M S = true) -> (forall c : state, In c cands -> in_space c S = true) -> compute_attractors_sym fuel N S seeds_only motifs cands tapes = Some (seeds, sets) -> seeds = fst (compute_attractors_filter N seeds_only motifs cands) /\ same_sets sets (snd (compute_attractors_filter N seeds_only motifs cands)).
Proof. exact compute_attractors_sym_agrees. Qed.

(* so the sets it returns are exactly the attractors *)
Theorem C12_filter_with_symbolic_test_exact : forall (fuel : nat) (N : net) (S : space) (motifs : list space) (cands : list state) (tapes : sym_tape) (seeds : list state) (sets : list (list state)), trap_space N S -> (forall M : space, In M motifs -> trap_space N M /\ subspace M S = true) -> NoDup cands -> (forall c : state, In c cands -> in_space c S = true) -> covers N S motifs cands -> compute_attractors_sym fuel N S false motifs cands tapes = Some (seeds, Some sets) -> one_to_one N S motifs seeds /\ length sets = length seeds /\ (forall (i : nat) (s : state) (X : list state), nth_error seeds i = Some s -> nth_error sets i = Some X -> forall t : state, In t X <-> reach N s t).
Proof. exact compute_attractors_sym_exact. Qed.

(* ... and the sets are those attractors *)
Theorem C12_node_sets_exact : forall (fuel : nat) (N : net) (S : space) (avoid : list space) (nfvs : list nat) (Rinit : retained) (cfg : ccfg) (greedy simulation : bool) (tape : list (list state)) (stp : simtape) (res : list state) (log : list call) (sfuel : nat) (stapes : sym_tape) (seeds : list state) (sets : list (list state)), trap_space N S -> (forall a : space, In a avoid -> trap_space N a /\ subspace a S = true) -> NoDup nfvs -> (forall v : nat, In v nfvs -> v < nvars N) -> retained_total nfvs Rinit -> no_neg_walk N S nfvs -> (is_full S = false -> nfvs = [] -> avoid <> [] -> fixed_points_avoided N S avoid) -> compute_candidates fuel N S avoid nfvs Rinit cfg greedy simulation tape stp = (COk res, log) -> tape_ok N S avoid log tape -> walks_ok fuel N S avoid nfvs Rinit cfg greedy tape stp -> NoDup res -> compute_attractors_sym sfuel N S false avoid res stapes = Some (seeds, Some sets) -> one_to_one N S avoid seeds /\ length sets = length seeds /\ (forall (i : nat) (s : state) (X : list state), nth_error seeds i = Some s -> nth_error sets i = Some X -> forall t : state, In t X <-> reach N s t).
Proof. exact node_seeds_exact. Qed.

Print Assumptions C12_source_compute_attractors_symbolic.
Print Assumptions C12_source_text_filter_exact.
Print Assumptions C12_source_text_filter_seeds_only.
Print Assumptions C12_check_sets_ok.
Print Assumptions C12_filter_exact.
Print Assumptions C12_reach_list_sound.
Print Assumptions C12_reach_list_complete.
Print Assumptions C12_attractor_is_class.
Print Assumptions C12_symbolic_test_some.
Print Assumptions C12_symbolic_test_none.
Print Assumptions C12_symbolic_test_meets_spec.
Print Assumptions C12_filter_with_symbolic_test_agrees.
Print Assumptions C12_filter_with_symbolic_test_exact.
Print Assumptions C12_node_sets_exact.
