(* C07 -- Control output is complete, minimal and honours the user's constraints

   Model: Control.find_drivers (size classes in ascending order, supersets of found key sets skipped).
   successions_spec / successions_nodup: the successions are exactly the chains of reduced motifs along all root
   paths to the end nodes, one motif per edge, each once; target_expansion_post: what the target-directed
   expansion expands.

   This file contains only restatements closed by `exact` (statements produced by Coq's own
   `Check` of the library lemma) plus non-vacuity Examples, each followed by Print Assumptions. *)
From Coq Require Import List Bool Arith NArith Lia Relations Permutation.
Import ListNotations.
From BB Require Import BN Brute SpaceFacts TrapFacts PercolateFacts AttractorFacts Diagram Invariants Checks Filter
  Strict PetriNet Control Meta FilterFacts PetriNetFacts TrappistFacts DiagramStruct DiagramSem1 DiagramCache
  DiagramDepth DiagramComplete Termination ControlFacts MetaFacts Candidates StrictFacts MinExpandFacts CandidatesFacts SymbolicTest SymbolicTestFacts Signed ReductionFacts ControlFacts2 Main Blocks BlocksFacts ObsFacts OwnerFacts CandidatesTerm
  PartialOwner BlockMath BlockComplete ASeeds ASeedsFacts LogChecks SkipRule SkipRuleFacts Names NamesFacts Perm PermFacts SCC SCCFacts SCCStruct ControlFacts3 SCCTerm FilterSym Main2 StrategyFacts ControlFacts4 SkipRuleFacts2 SCCComplete SCCAttr BlockComplete2 ControlFacts5 Iso SkipSem ControlFacts6.
From BB Require Import PyLib PyLibSd PyLibPerc PyLibCore PyLibControl PySrcControl PySrcControlFacts PySrcFindDriversFacts PySrcControlCorollaries PyLibSd2 PySrcSdBase PySrcSdTarget PySrcSdTargetFacts PyLibSucc PySrcSucc PySrcSuccFacts PySrcSuccCtl PySrcSuccCtlFacts.

(* succession_control as written in the source (its glue pinned to a reference text, calling the GENERATED successions_to_target and drivers_of_succession) is the model's succession_control_ff filtered by successful_only: the overrides listed per step are those of the model's drivers_of_succession, to which the completeness / minimality theorems below apply *)
Theorem C07_source_succession_control : forall (fuel : nat) (N : net) (cfg : config) (d : sd) (target : list (option bool)) (strat : bool) (maxd : option nat) (forb : option (list nat)) (so ff : bool), succ_inv N d -> length target = nvars N -> 0 < count_fixed target -> let '(d1, r) := expand_to_target fuel N cfg d target None in py_succession_control fuel N cfg d target strat maxd forb so ff = match r with | RRaised _ | RFuel => SRaise d1 r | _ => SRet d1 (filter (fun iv : list space * list (list space) * bool => negb so || snd iv) (succession_control_ff N d1 target strat maxd (forb_list forb) ff)) end.
Proof. exact py_succession_control_spec. Qed.

(* C07 for the SOURCE TEXT of control.find_drivers (generated function): every reported override forces, avoids forbidden variables, respects the bound; the list is complete and minimal *)
Theorem C07_source_text_find_drivers_sound : forall (N : net) (ts : list (option bool)) (strat : bool) (assume : list (option bool)) (maxd : option nat) (forb : option (list nat)) (l : list space) (drv : space), length ts = nvars N -> length assume = nvars N -> py_find_drivers N ts strat (Some assume) maxd forb = Some l -> In drv l -> length drv = nvars N /\ forces_ldoi N drv assume ts = true /\ (forall v : nat, In v (dom drv) -> ~ In v (opt_vars forb)) /\ length (dom drv) <= match maxd with | Some k => k | None => length (vars_fixed (free_of ts assume)) end /\ (strat = false -> forall (v : nat) (b : bool), nth v drv None = Some b -> nth v (free_of ts assume) None = Some b).
Proof. exact py_find_drivers_sound. Qed.

Theorem C07_source_text_find_drivers_complete : forall (N : net) (ts : list (option bool)) (strat : bool) (assume : list (option bool)) (maxd : option nat) (forb : option (list nat)) (drv : list (option bool)), length ts = nvars N -> length assume = nvars N -> length drv = nvars N -> forces_ldoi N drv assume ts = true -> (forall v : nat, In v (dom drv) -> ~ In v (opt_vars forb) /\ v < nvars N) -> length (dom drv) <= match maxd with | Some k => k | None => length (vars_fixed (free_of ts assume)) end -> (strat = false -> forall (v : nat) (b : bool), nth v drv None = Some b -> nth v (free_of ts assume) None = Some b) -> exists (l : list space) (drv' : space), py_find_drivers N ts strat (Some assume) maxd forb = Some l /\ In drv' l /\ (forall v : nat, In v (dom drv') -> In v (dom drv)).
Proof. exact py_find_drivers_complete. Qed.

Theorem C07_source_text_find_drivers_minimal : forall (N : net) (ts : list (option bool)) (strat : bool) (assume : list (option bool)) (maxd : option nat) (forb : option (list nat)) (l : list space) (drv drv' : space), length ts = nvars N -> length assume = nvars N -> py_find_drivers N ts strat (Some assume) maxd forb = Some l -> In drv l -> In drv' l -> (forall v : nat, In v (dom drv') -> In v (dom drv)) -> forall v : nat, In v (dom drv) -> In v (dom drv').
Proof. exact py_find_drivers_minimal. Qed.

(* translator tie: the function GENERATED from the current text of control.find_drivers (PySrcControl.v; embedding PyLibControl.v: combinations, product, the dict comprehensions, the minimality test) computes the model's find_drivers for both strategies, any bound, any forbidden set and any assumption *)
Theorem C07_source_find_drivers : forall (N : net) (ts : list (option bool)) (strat : bool) (assume : option space) (maxd : option nat) (forb : option (list nat)), length ts = nvars N -> length (opt_space N assume) = nvars N -> py_find_drivers N ts strat assume maxd forb = Some (find_drivers N ts strat (opt_space N assume) maxd (opt_vars forb)).
Proof. exact py_find_drivers_spec. Qed.

(* translator tie: the function GENERATED from the current text of control.drivers_of_succession (PySrcControl.v) computes the model's drivers_of_succession (per-step default bound, assumption grown by the LDOI of each step) *)
Theorem C07_source_drivers_of_succession : forall (N : net) (succ : list (list (option bool))) (strat : bool) (maxd : option nat) (forb : option (list nat)), (forall ts : list (option bool), In ts succ -> length ts = nvars N) -> py_drivers_of_succession N succ strat maxd forb = Some (drivers_of_succession N succ strat (top_space (nvars N)) maxd match forb with | Some l => l | None => [] end).
Proof. exact py_drivers_of_succession_spec. Qed.

(* forcing, allowed variables only, within the size bound *)
Theorem C07_find_drivers_sound : forall (N : net) (ts : list (option bool)) (all_strategy : bool) (assume : list (option bool)) (maxd : option nat) (forbidden : list nat) (drv : space), length ts = nvars N -> length assume = nvars N -> In drv (find_drivers N ts all_strategy assume maxd forbidden) -> length drv = nvars N /\ forces_ldoi N drv assume ts = true /\ (forall v : nat, In v (dom drv) -> ~ In v forbidden) /\ length (dom drv) <= match maxd with | Some k => k | None => length (vars_fixed (free_of ts assume)) end /\ (all_strategy = false -> forall (v : nat) (b : bool), nth v drv None = Some b -> nth v (free_of ts assume) None = Some b).
Proof. exact find_drivers_sound. Qed.

(* every admissible forcing assignment has a reported driver set on a subset of its variables *)
Theorem C07_find_drivers_complete : forall (N : net) (ts : list (option bool)) (all_strategy : bool) (assume : list (option bool)) (maxd : option nat) (forbidden : list nat) (drv : list (option bool)), length ts = nvars N -> length assume = nvars N -> length drv = nvars N -> forces_ldoi N drv assume ts = true -> (forall v : nat, In v (dom drv) -> ~ In v forbidden /\ v < nvars N) -> length (dom drv) <= match maxd with | Some k => k | None => length (vars_fixed (free_of ts assume)) end -> (all_strategy = false -> forall (v : nat) (b : bool), nth v drv None = Some b -> nth v (free_of ts assume) None = Some b) -> exists drv' : space, In drv' (find_drivers N ts all_strategy assume maxd forbidden) /\ (forall v : nat, In v (dom drv') -> In v (dom drv)).
Proof. exact find_drivers_complete. Qed.

(* no reported set strictly inside another *)
Theorem C07_find_drivers_minimal : forall (N : net) (ts : list (option bool)) (all_strategy : bool) (assume : list (option bool)) (maxd : option nat) (forbidden : list nat) (drv drv' : space), length ts = nvars N -> length assume = nvars N -> In drv (find_drivers N ts all_strategy assume maxd forbidden) -> In drv' (find_drivers N ts all_strategy assume maxd forbidden) -> (forall v : nat, In v (dom drv') -> In v (dom drv)) -> forall v : nat, In v (dom drv) -> In v (dom drv').
Proof. exact find_drivers_minimal. Qed.

Theorem C07_subsets_of_size_spec : forall (k : nat) (l s : list nat), In s (subsets_of_size k l) <-> sublist s l /\ length s = k.
Proof. exact subsets_of_size_spec. Qed.

Theorem C07_successions_spec : forall (N : net) (d : sd) (target : space) (succ : list space), SWF N d -> EdgeStrict d -> In succ (successions d target) <-> (exists (s : nat) (es : list edge), end_node d target s /\ s <> 0 /\ epath d 0 s es /\ choice d es succ) \/ succ = [] /\ (exists s : nat, s < size d /\ ~ lava_below d target s) /\ ~ (exists (s : nat) (es : list edge) (succ' : list space), end_node d target s /\ s <> 0 /\ epath d 0 s es /\ choice d es succ').
Proof. exact successions_spec. Qed.

Theorem C07_successions_nodup : forall (N : net) (d : sd) (target : space), SWF N d -> EdgeStrict d -> (forall e : edge, In e (sd_edges d) -> NoDup (map (fun m : space => reduce_motif m (n_space (get d (e_src e)))) (e_motifs e))) -> NoDup (successions d target).
Proof. exact successions_nodup. Qed.

Theorem C07_target_expansion_post : forall (fuel : nat) (N : net) (cfg : config) (target : list (option bool)) (d' : sd), 1 <= max_motifs cfg -> length target = nvars N -> expand_to_target fuel N cfg (init N) target None = (d', RBool true) -> forall i : nat, i < size d' -> n_exp (get d' i) = true <-> intersect (n_space (get d' i)) target <> None /\ ~ (subspace (n_space (get d' i)) target = true /\ n_space (get d' i) <> target).
Proof. exact target_expansion_post. Qed.

Theorem C07_reaches_lava_spec : forall (N : net) (d : sd) (target : space) (x : nat), SWF N d -> EdgeStrict d -> x < size d -> reaches_lava d target x = true <-> lava_below d target x.
Proof. exact reaches_lava_spec. Qed.

(* skip_feedforward_successions: the filter only removes successions *)
Theorem C07_skip_feedforward_only_removes : forall (succs : list (list space)) (s : list space), In s (ff_filter succs) -> In s succs.
Proof. exact ff_filter_incl. Qed.

(* every removed succession is subsumed by a kept one with a weaker signature *)
Theorem C07_skip_feedforward_covers : forall (succs : list (list (list (option bool)))) (s : list space), (forall x : list (list (option bool)), In x succs -> forall m : list (option bool), In m x -> length m = length (signature s)) -> In s succs -> exists k : list space, In k (ff_filter succs) /\ subspace (signature s) (signature k) = true.
Proof. exact ff_filter_covers. Qed.

(* kept signatures are pairwise incomparable *)
Theorem C07_skip_feedforward_antichain : forall (succs : list (list (list (option bool)))) (a b : list space), (forall x : list (list (option bool)), In x succs -> forall (m : list (option bool)) (y : list (list (option bool))), In m x -> In y succs -> forall m' : list (option bool), In m' y -> length m = length m') -> In a (ff_filter succs) -> In b (ff_filter succs) -> subspace (signature a) (signature b) = true -> signature a = signature b.
Proof. exact ff_filter_antichain. Qed.

Print Assumptions C07_source_succession_control.
Print Assumptions C07_source_text_find_drivers_sound.
Print Assumptions C07_source_text_find_drivers_complete.
Print Assumptions C07_source_text_find_drivers_minimal.
Print Assumptions C07_source_find_drivers.
Print Assumptions C07_source_drivers_of_succession.
Print Assumptions C07_find_drivers_sound.
Print Assumptions C07_find_drivers_complete.
Print Assumptions C07_find_drivers_minimal.
Print Assumptions C07_subsets_of_size_spec.
Print Assumptions C07_successions_spec.
Print Assumptions C07_successions_nodup.
Print Assumptions C07_target_expansion_post.
Print Assumptions C07_reaches_lava_spec.
Print Assumptions C07_skip_feedforward_only_removes.
Print Assumptions C07_skip_feedforward_covers.
Print Assumptions C07_skip_feedforward_antichain.
