(* C11 -- Percolation computes exactly the logical domain of influence.
   Model: Brute.percolate_b (executable twin of AEON's percolate_subspace, compared with the
   real percolate_space on every check run).  Only restatements closed by `exact`. *)
From Coq Require Import List Bool Arith Relations.
Import ListNotations.
From BB Require Import BN Brute SpaceFacts TrapFacts PercolateFacts.

(* the result is reached by fixing, one at a time, free variables whose update function is
   constant on the space fixed so far, and nothing more can be fixed *)
Theorem C11_is_percolation : forall N S, length S = nvars N -> is_percolation N S (percolate_b N S).
Proof. exact percolate_b_is_percolation. Qed.

(* ... and it does not depend on the order in which variables are fixed *)
Theorem C11_unique : forall N S P P', length S = nvars N ->
  is_percolation N S P -> is_percolation N S P' -> P = P'.
Proof. exact percolation_unique. Qed.

(* least fixed point: every refinement of S closed under value propagation refines the result *)
Theorem C11_least : forall N S Q, length S = nvars N -> subspace Q S = true ->
  (forall i v, i < nvars N -> nth i S None = None -> const_on N i Q v -> nth i Q None = Some v) ->
  subspace Q (percolate_b N S) = true.
Proof. exact percolate_b_least. Qed.

(* given values are kept, even when they conflict with the dynamics *)
Theorem C11_keeps_given : forall N S i v, length S = nvars N -> nth i S None = Some v ->
  nth i (percolate_b N S) None = Some v.
Proof. exact percolate_b_keeps. Qed.

Theorem C11_idempotent : forall N S, length S = nvars N ->
  percolate_b N (percolate_b N S) = percolate_b N S.
Proof. exact percolate_b_idem. Qed.

Theorem C11_trap : forall N S, trap_space N S ->
  trap_space N (percolate_b N S) /\ subspace (percolate_b N S) S = true.
Proof. exact percolate_b_trap. Qed.

(* the boolean constancy test used by the twin is exact *)
Theorem C11_const_on : forall N i S v, length S = nvars N ->
  (const_on_b N i S = Some v <-> const_on N i S v).
Proof. exact const_on_b_some. Qed.

(* non-vacuity: a 3-variable network (x0' = x1, x1' = x0, x2' = x0 | x2) and a conflicting space *)
Definition ex_net : net :=
  [fun s => nth 1 s false; fun s => nth 0 s false; fun s => nth 0 s false || nth 2 s false].
Example C11_example_propagates :
  percolate_b ex_net [Some true; None; None] = [Some true; Some true; Some true].
Proof. vm_compute. reflexivity. Qed.
Example C11_example_conflict_kept :
  percolate_b ex_net [Some true; Some false; None] = [Some true; Some false; Some true].
Proof. vm_compute. reflexivity. Qed.

Print Assumptions C11_is_percolation.
Print Assumptions C11_unique.
Print Assumptions C11_least.
Print Assumptions C11_keeps_given.
Print Assumptions C11_idempotent.
Print Assumptions C11_trap.
Print Assumptions C11_const_on.
