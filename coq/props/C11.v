(* C11 -- Percolation computes exactly the logical domain of influence

   Model: Brute.percolate_b (twin of AEON's percolate_subspace, compared with percolate_space on every run),
   Strict.percolate_strict_ord (percolate_space_strict with the candidate set's iteration order as a parameter),
   conflicts_b, single_ldois, single_drivers.

   This file contains only restatements closed by `exact` (statements produced by Coq's own
   `Check` of the library lemma) plus non-vacuity Examples, each followed by Print Assumptions. *)
From Coq Require Import List Bool Arith NArith Lia Relations Permutation.
Import ListNotations.
From BB Require Import BN Brute SpaceFacts TrapFacts PercolateFacts AttractorFacts Diagram Invariants Checks Filter
  Strict PetriNet Control Meta FilterFacts PetriNetFacts TrappistFacts DiagramStruct DiagramSem1 DiagramCache
  DiagramDepth DiagramComplete Termination ControlFacts MetaFacts Candidates StrictFacts MinExpandFacts CandidatesFacts SymbolicTest SymbolicTestFacts Signed ReductionFacts ControlFacts2 Main Blocks BlocksFacts ObsFacts OwnerFacts CandidatesTerm
  PartialOwner BlockMath BlockComplete ASeeds ASeedsFacts LogChecks SkipRule SkipRuleFacts Names NamesFacts Perm PermFacts SCC SCCFacts SCCStruct ControlFacts3 SCCTerm FilterSym Main2 StrategyFacts ControlFacts4 SkipRuleFacts2 SCCComplete SCCAttr BlockComplete2 ControlFacts5 Iso SkipSem ControlFacts6.
From BB Require Import PyLib PyLibSd PyLibPerc PySrcPerc PySrcPercFacts PyLibDrivers PySrcDrivers PySrcDriversFacts.

(* translator tie: the function GENERATED from the current text of space_utils.percolate_space_strict (PySrcPerc.v; embedding PyLibPerc.v) computes the model's percolate_strict_b *)
Theorem C11_source_percolate_space_strict : forall (N : net) (X : list (option bool)), length X = nvars N -> py_percolate_space_strict N X = Some (percolate_strict_b N X).
Proof. exact py_percolate_space_strict_spec. Qed.

(* ... drivers.find_single_node_LDOIs the model's single_ldois, and find_single_drivers (with or without a caller-supplied table) single_drivers *)
Theorem C11_source_find_single_node_LDOIs : forall N : net, py_find_single_node_LDOIs N = Some (single_ldois N).
Proof. exact py_find_single_node_LDOIs_spec. Qed.

Theorem C11_source_find_single_drivers : forall (N : net) (target : space), py_find_single_drivers N target None = Some (single_drivers N target) /\ py_find_single_drivers N target (Some (single_ldois N)) = Some (single_drivers N target).
Proof. exact py_find_single_drivers_spec. Qed.

(* ... and percolation_conflicts(strict_percolation=False) the model's conflicts_b (as a duplicate-free set) *)
Theorem C11_source_percolation_conflicts : forall (N : net) (X : list (option bool)), length X = nvars N -> exists l : list nat, py_percolation_conflicts N X false = Some l /\ NoDup l /\ (forall v : nat, In v l <-> In v (conflicts_b N X)).
Proof. exact py_percolation_conflicts_spec. Qed.

(* reached by fixing, one at a time, free variables whose update function is constant on the space fixed so far; nothing more can be fixed *)
Theorem C11_is_percolation : forall (N : net) (S : list (option bool)), length S = nvars N -> is_percolation N S (percolate_b N S).
Proof. exact percolate_b_is_percolation. Qed.

(* independent of the order *)
Theorem C11_unique : forall (N : net) (S : list (option bool)) (P P' : space), length S = nvars N -> is_percolation N S P -> is_percolation N S P' -> P = P'.
Proof. exact percolation_unique. Qed.

(* least fixed point *)
Theorem C11_least : forall (N : net) (S : list (option bool)) (Q : space), length S = nvars N -> subspace Q S = true -> (forall (i : nat) (v : bool), i < nvars N -> nth i S None = None -> const_on N i Q v -> nth i Q None = Some v) -> subspace Q (percolate_b N S) = true.
Proof. exact percolate_b_least. Qed.

(* given values are kept even when they conflict with the dynamics *)
Theorem C11_keeps_given : forall (N : net) (S : list (option bool)) (i : nat) (v : bool), length S = nvars N -> nth i S None = Some v -> nth i (percolate_b N S) None = Some v.
Proof. exact percolate_b_keeps. Qed.

Theorem C11_idempotent : forall (N : net) (S : list (option bool)), length S = nvars N -> percolate_b N (percolate_b N S) = percolate_b N S.
Proof. exact percolate_b_idem. Qed.

Theorem C11_trap : forall (N : net) (S : space), trap_space N S -> trap_space N (percolate_b N S) /\ subspace (percolate_b N S) S = true.
Proof. exact percolate_b_trap. Qed.

Theorem C11_const_on : forall (N : net) (i : nat) (S : list (option bool)) (v : bool), length S = nvars N -> const_on_b N i S = Some v <-> const_on N i S v.
Proof. exact const_on_b_some. Qed.

(* what the strict variant reports *)
Theorem C11_strict_shape : forall (N : net) (order : list nat) (S : list (option bool)) (v : nat) (c : bool), length S = nvars N -> NoDup order -> (forall v0 : nat, In v0 order <-> v0 < nvars N) -> nth v (percolate_strict_ord N order S) None = Some c -> v < nvars N /\ globally_const N v = false /\ (nth v S None = None \/ nth v S None = Some c) /\ const_on N v (merge S (percolate_strict_ord N order S)) c.
Proof. exact strict_result_shape. Qed.

Theorem C11_strict_closed : forall (N : net) (order : list nat) (S : list (option bool)), length S = nvars N -> NoDup order -> (forall v : nat, In v order <-> v < nvars N) -> strict_closed N S (merge S (percolate_strict_ord N order S)).
Proof. exact strict_result_closed. Qed.

Theorem C11_strict_least : forall (N : net) (order : list nat) (S : list (option bool)) (Q : space), length S = nvars N -> NoDup order -> (forall v : nat, In v order <-> v < nvars N) -> subspace Q S = true -> strict_closed N S Q -> subspace Q (merge S (percolate_strict_ord N order S)) = true.
Proof. exact strict_result_least. Qed.

(* the Python set iteration order does not matter *)
Theorem C11_strict_order_independent : forall (N : net) (order1 order2 : list nat) (S : list (option bool)), length S = nvars N -> NoDup order1 -> NoDup order2 -> (forall v : nat, In v order1 <-> v < nvars N) -> (forall v : nat, In v order2 <-> v < nvars N) -> percolate_strict_ord N order1 S = percolate_strict_ord N order2 S.
Proof. exact strict_order_independent. Qed.

(* without globally constant variables both variants fix the same variables *)
Theorem C11_strict_vs_percolate : forall (N : net) (S : list (option bool)), length S = nvars N -> (forall u : nat, u < nvars N -> globally_const N u = false) -> merge S (percolate_strict_b N S) = percolate_b N S.
Proof. exact strict_eq_percolate. Qed.

Theorem C11_single_ldois : forall (N : net) (v : nat) (b : bool) (X : space), In (v, b, X) (single_ldois N) <-> v < nvars N /\ globally_const N v = false /\ X = percolate_strict_b N (single_space (nvars N) v b).
Proof. exact single_ldois_spec. Qed.

Theorem C11_single_drivers : forall (N : net) (target : list (option bool)) (v : nat) (b : bool), length target = nvars N -> In (v, b) (single_drivers N target) <-> v < nvars N /\ globally_const N v = false /\ (forall (u : nat) (w : bool), nth u target None = Some w -> u = v /\ w = b \/ nth u (percolate_strict_b N (single_space (nvars N) v b)) None = Some w).
Proof. exact single_drivers_spec. Qed.

Theorem C11_single_drivers_python_reading : forall (N : net) (target : list (option bool)) (v : nat) (b : bool), length target = nvars N -> v < nvars N -> globally_const N v = false -> drives target (percolate_strict_b N (single_space (nvars N) v b)) v b = true <-> (forall (u : nat) (w : bool), nth u target None = Some w -> nth u (percolate_strict_b N (single_space (nvars N) v b)) None = Some w \/ (u, w) = (v, b)).
Proof. exact single_drivers_items_reading. Qed.

Theorem C11_conflicts : forall (N : net) (S : list (option bool)) (v : nat), length S = nvars N -> In v (conflicts_b N S) <-> v < nvars N /\ (exists g c : bool, nth v (percolate_b N S) None = Some g /\ const_on N v (percolate_b N S) c /\ g <> c).
Proof. exact conflicts_b_spec. Qed.

Definition ex_net : net :=
  [fun s => nth 1 s false; fun s => nth 0 s false; fun s => nth 0 s false || nth 2 s false].
Example C11_example_propagates : percolate_b ex_net [Some true; None; None] = [Some true; Some true; Some true].
Proof. vm_compute. reflexivity. Qed.
Example C11_example_conflict_kept : percolate_b ex_net [Some true; Some false; None] = [Some true; Some false; Some true].
Proof. vm_compute. reflexivity. Qed.

Print Assumptions C11_source_percolate_space_strict.
Print Assumptions C11_source_find_single_node_LDOIs.
Print Assumptions C11_source_find_single_drivers.
Print Assumptions C11_source_percolation_conflicts.
Print Assumptions C11_is_percolation.
Print Assumptions C11_unique.
Print Assumptions C11_least.
Print Assumptions C11_keeps_given.
Print Assumptions C11_idempotent.
Print Assumptions C11_trap.
Print Assumptions C11_const_on.
Print Assumptions C11_strict_shape.
Print Assumptions C11_strict_closed.
Print Assumptions C11_strict_least.
Print Assumptions C11_strict_order_independent.
Print Assumptions C11_strict_vs_percolate.
Print Assumptions C11_single_ldois.
Print Assumptions C11_single_drivers.
Print Assumptions C11_single_drivers_python_reading.
Print Assumptions C11_conflicts.
