(* C14 -- Cached attractor data is never stale

   Model: every cache field carries a ghost tag = the successor motif list and skip flag it was computed
   against (Diagram.cur_tag); CacheOK says every set field carries the node's CURRENT tag.  The correspondence
   run compares which fields are set after every operation and judges the cached values themselves.

   This file contains only restatements closed by `exact` (statements produced by Coq's own
   `Check` of the library lemma) plus non-vacuity Examples, each followed by Print Assumptions. *)
From Coq Require Import List Bool Arith NArith Lia Relations Permutation.
Import ListNotations.
From BB Require Import BN Brute SpaceFacts TrapFacts PercolateFacts AttractorFacts Diagram Invariants Checks Filter
  Strict PetriNet Control Meta FilterFacts PetriNetFacts TrappistFacts DiagramStruct DiagramSem1 DiagramCache
  DiagramDepth DiagramComplete Termination ControlFacts MetaFacts Candidates StrictFacts MinExpandFacts CandidatesFacts SymbolicTest SymbolicTestFacts Signed ReductionFacts ControlFacts2 Main Blocks BlocksFacts ObsFacts OwnerFacts CandidatesTerm
  PartialOwner BlockMath BlockComplete ASeeds ASeedsFacts LogChecks SkipRule SkipRuleFacts Names NamesFacts Perm PermFacts SCC SCCFacts SCCStruct ControlFacts3 SCCTerm FilterSym Main2 StrategyFacts ControlFacts4 SkipRuleFacts2 SCCComplete SCCAttr BlockComplete2 ControlFacts5 Iso SkipSem ControlFacts6.
From BB Require Import PyLibCore PySrcCore PySrcCoreFacts PyLibCore2 PySrcCore2 PySrcCore2Facts PySrcInitFacts PyLib PyLibSd PyLibCore PyLibSd2 PyLibScc PySrcSdBase PySrcSdScc PySrcSdSccFacts PyLib PyLibSd PyLibCore PyLibSd2 PyLibScc PySrcSdBase PySrcSdScc PySrcSdSccFacts Control PyLibControl PySrcSdSccMain PySrcSdSccMainFacts PyLibBlocks PySrcSdBlocks PySrcSdBlocksFacts PySrcApi PySrcEndToEndScc PySrcEndToEndBlocks.

(* C14 for the SOURCE TEXT of the default strategy: whatever the generated expand_block returns, every cache tag of the diagram it leaves is sound (the source fast-forward writes its caches against the node's new successor list) *)
Theorem C14_source_text_expand_block_cache_tags : forall (fuel : nat) (N : net) (cfg : config) (d : sd) (tape : list bool) (maa : bool) (sz : option nat) (opt exact : bool), SWF N d -> NoStubEdges d -> CacheOK d -> CacheOK (flow_sd (py_api_expand_block fuel N cfg d tape maa sz opt exact)).
Proof. exact py_api_expand_block_CacheOK. Qed.

(* translator tie: the function GENERATED from the current text of expand_source_SCCs.attach_scc_subdiagram (PySrcSdScc.v: node copying, cache discarding for stubs and skip nodes, candidate queries, edge copying) does exactly what the model's SCC.attach_scc does in the situation in which expand_source_SCCs calls it (SCCTerm.senv / SI / good_at) *)
Theorem C14_source_attach_scc_subdiagram : forall (N : net) (cfg : config) (d : sd) (B : list nat) (sub : sd) (attach_at : nat) (check_maa : bool) (tape : tape_t) (sp : space) (rest : list (list nat)), attach_pre N B sub d attach_at -> senv N sp B rest sub -> SI N d -> good_at sp (B :: rest) d attach_at -> let '(d', r, mins, tape') := attach_scc N check_maa B sub d attach_at tape in py_attach_scc_subdiagram N cfg d B tape sub attach_at check_maa = match r with | RUnit => SRet d' (mins, tape') | _ => SRaise d' r end.
Proof. exact py_attach_scc_subdiagram_spec_senv. Qed.

(* ... and for every sub-diagram satisfying attach_pre whenever the model does not report the assertion *)
Theorem C14_source_attach_scc_subdiagram_no_assert : forall (N : net) (cfg : config) (d : sd) (B : list nat) (sub : sd) (attach_at : nat) (check_maa : bool) (tape : tape_t), attach_pre N B sub d attach_at -> snd (fst (fst (attach_scc N check_maa B sub d attach_at tape))) <> RRaised ErrAssert -> let '(d', r, mins, tape') := attach_scc N check_maa B sub d attach_at tape in py_attach_scc_subdiagram N cfg d B tape sub attach_at check_maa = match r with | RUnit => SRet d' (mins, tape') | _ => SRaise d' r end.
Proof. exact py_attach_scc_subdiagram_spec_noassert. Qed.

(* the one discrepancy: when the assertion main_node_id != main_succ_id fires after edges were copied, the text raises with those edges in the diagram, the model returns the diagram before the edge loop (cannot happen in expand_source_SCCs: SCCTerm.attach_scc_SI) *)
Theorem C14_source_attach_scc_subdiagram_assert_case : exists (N : net) (cfg : config) (d : sd) (B : list nat) (sub : sd) (attach_at : nat) (check_maa : bool) (tape : tape_t), attach_pre N B sub d attach_at /\ ~ (let '(d', r, mins, tape') := attach_scc N check_maa B sub d attach_at tape in py_attach_scc_subdiagram N cfg d B tape sub attach_at check_maa = match r with | RUnit => SRet d' (mins, tape') | _ => SRaise d' r end).
Proof. exact py_attach_scc_subdiagram_spec_counterexample. Qed.

(* translator tie: reclaim_node_data as generated from the source = Diagram.reclaim *)
Theorem C14_source_reclaim_node_data : forall (fuel : nat) (N0 : net) (cfg : config) (pnc : nat -> bool) (w : pyst), exists w' : pyst, py_reclaim_node_data fuel N0 cfg pnc w = CNext w' Datatypes.tt /\ p_sd w' = reclaim (p_sd w) /\ p_idx w' = p_idx w.
Proof. exact py_reclaim_node_data_spec. Qed.

(* translator tie: the function GENERATED from the current text of SuccessionDiagram._expand_one_node (PySrcCore.v; embedding PyLibCore.v) computes Diagram.expand_one for every diagram satisfying the class invariant CoreInv, every oracle for the percolated-net cache, and preserves CoreInv *)
Theorem C14_source_expand_one_node : forall (fuel : nat) (N : net) (cfg : config) (pnc : nat -> bool) (w : pyst) (i : nat), CoreInv N w -> i < size (p_sd w) -> 1 <= max_motifs cfg -> S (size (fst (expand_one N cfg (p_sd w) i))) < fuel -> exists w' : pyst, p_sd w' = fst (expand_one N cfg (p_sd w) i) /\ CoreInv N w' /\ match snd (expand_one N cfg (p_sd w) i) with | RUnit => py_expand_one_node fuel N cfg pnc w i = CRet w' Datatypes.tt \/ py_expand_one_node fuel N cfg pnc w i = CNext w' Datatypes.tt | RBool b => py_expand_one_node fuel N cfg pnc w i = CRaise w' (RBool b) | RNat k => py_expand_one_node fuel N cfg pnc w i = CRaise w' (RNat k) | RIds l => py_expand_one_node fuel N cfg pnc w i = CRaise w' (RIds l) | RRaised e => py_expand_one_node fuel N cfg pnc w i = CRaise w' (RRaised e) | RFuel => py_expand_one_node fuel N cfg pnc w i = CRaise w' RFuel end.
Proof. exact py_expand_one_node_spec. Qed.

Theorem C14_step_CacheOK : forall (fuel : nat) (N : net) (cfg : config) (d : sd) (o : op), SWF N d -> NoStubEdges d -> EdgeStrict d -> CacheOK d -> CacheOK (fst (step fuel N cfg d o)).
Proof. exact step_CacheOK. Qed.

Theorem C14_run_CacheOK : forall (fuel : nat) (N : net) (cfg : config) (h : list op) (d : sd) (r : result), In (d, r) (run fuel N cfg (init N) h) -> CacheOK d.
Proof. exact run_CacheOK. Qed.

Theorem C14_expand_one_CacheOK : forall (N : net) (cfg : config) (d : sd) (i : nat), SWF N d -> NoStubEdges d -> CacheOK d -> CacheOK (fst (expand_one N cfg d i)).
Proof. exact expand_one_CacheOK. Qed.

Theorem C14_q_cands_CacheOK : forall (d : sd) (i : nat) (o : outcome), CacheOK d -> i < size d -> CacheOK (fst (q_cands d i o)).
Proof. exact q_cands_CacheOK. Qed.

Theorem C14_q_seeds_CacheOK : forall (d : sd) (i : nat) (fb : bool) (oc os : outcome), CacheOK d -> i < size d -> CacheOK (fst (q_seeds d i fb oc os)).
Proof. exact q_seeds_CacheOK. Qed.

Theorem C14_q_sets_CacheOK : forall (d : sd) (i : nat) (oc os : outcome), CacheOK d -> i < size d -> CacheOK (fst (q_sets d i oc os)).
Proof. exact q_sets_CacheOK. Qed.

Theorem C14_reclaim_CacheOK : forall d : sd, CacheOK d -> CacheOK (reclaim d).
Proof. exact reclaim_CacheOK. Qed.

(* CacheOK really excludes stale data *)
Theorem C14_not_vacuous : ~ CacheOK stale_sd.
Proof. exact stale_not_CacheOK. Qed.

(* source shortcuts and clean-block bookkeeping of expand_block (after fix 3581ec3) *)
Theorem C14_block_expansion_CacheOK : forall (fuel : nat) (N : net) (cfg : config) (d : sd) (maa opt : bool) (sz : option nat) (tape : list bool), SWF N d -> NoStubEdges d -> CacheOK d -> CacheOK (fst (expand_block fuel N cfg d maa opt sz tape)).
Proof. exact expand_block_CacheOK. Qed.

Theorem C14_aseeds_expansion_keeps_caches_valid : forall (fuel : nat) (N : net) (cfg : config) (d : sd) (sz : option nat) (min_tape : list space) (tape : list (list nat)), 1 <= max_motifs cfg -> SWF N d -> NoStubEdges d -> CacheOK d -> CacheOK (fst (expand_aseeds fuel N cfg d sz min_tape tape)).
Proof. exact expand_aseeds_CacheOK. Qed.

Print Assumptions C14_source_text_expand_block_cache_tags.
Print Assumptions C14_source_attach_scc_subdiagram.
Print Assumptions C14_source_attach_scc_subdiagram_no_assert.
Print Assumptions C14_source_attach_scc_subdiagram_assert_case.
Print Assumptions C14_source_reclaim_node_data.
Print Assumptions C14_source_expand_one_node.
Print Assumptions C14_step_CacheOK.
Print Assumptions C14_run_CacheOK.
Print Assumptions C14_expand_one_CacheOK.
Print Assumptions C14_q_cands_CacheOK.
Print Assumptions C14_q_seeds_CacheOK.
Print Assumptions C14_q_sets_CacheOK.
Print Assumptions C14_reclaim_CacheOK.
Print Assumptions C14_not_vacuous.
Print Assumptions C14_block_expansion_CacheOK.
Print Assumptions C14_aseeds_expansion_keeps_caches_valid.
