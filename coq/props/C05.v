(* C05 -- Diagrams completed with skip nodes never lose an attractor

   PARTIAL, with a KNOWN FINDING (D4, see KNOWN_FINDINGS.jsonl): on the unchanged code motif-avoidant
   attractors in the intersection of skip nodes are lost, so the full statement is false of the faithful model.
   What is proved: the structural part for skip operations (invariants, cache clearing), and the exactness of
   the predicates (check_seeds / check_seeds_sound run on the implementation's seeds against brute-force
   attractors).  The exclusion rule of skip nodes is emulated by the harness (verdict kind 'skiprule').

   This file contains only restatements closed by `exact` (statements produced by Coq's own
   `Check` of the library lemma) plus non-vacuity Examples, each followed by Print Assumptions. *)
From Coq Require Import List Bool Arith NArith Lia Relations Permutation.
Import ListNotations.
From BB Require Import BN Brute SpaceFacts TrapFacts PercolateFacts AttractorFacts Diagram Invariants Checks Filter
  Strict PetriNet Control Meta FilterFacts PetriNetFacts TrappistFacts DiagramStruct DiagramSem1 DiagramCache
  DiagramDepth DiagramComplete Termination ControlFacts MetaFacts Candidates StrictFacts MinExpandFacts CandidatesFacts SymbolicTest SymbolicTestFacts Signed ReductionFacts ControlFacts2 Main Blocks BlocksFacts ObsFacts OwnerFacts CandidatesTerm.

Theorem C05_skip_ops_keep_wellformed : forall (fuel : nat) (N : net) (cfg : config) (d : sd) (o : op), SWF N d -> SWF N (fst (step fuel N cfg d o)).
Proof. exact step_SWF. Qed.

Theorem C05_skip_ops_keep_faithful : forall (fuel : nat) (N : net) (cfg : config) (d : sd) (o : op), 1 <= max_motifs cfg -> SWF N d -> NoStubEdges d -> Faithful N d -> Faithful N (fst (step fuel N cfg d o)).
Proof. exact step_Faithful_all. Qed.

(* skipping discards attractor data computed while the node had no successors *)
Theorem C05_skip_ops_clear_caches : forall (fuel : nat) (N : net) (cfg : config) (d : sd) (o : op), SWF N d -> NoStubEdges d -> EdgeStrict d -> CacheOK d -> CacheOK (fst (step fuel N cfg d o)).
Proof. exact step_CacheOK. Qed.

Theorem C05_check_seeds_ok : forall (N : net) (S : space) (motifs : list space) (seeds : list state), check_seeds S (node_attractors_b N S motifs) seeds = VOk <-> (forall c : state, In c seeds -> in_space c S = true) /\ one_to_one N S motifs seeds.
Proof. exact check_seeds_ok. Qed.

(* skip edges lead to strictly smaller spaces (no self loops) *)
Theorem C05_edge_strict : forall (fuel : nat) (N : net) (cfg : config) (d : sd) (o : op), SWF N d -> TrapNodes N d -> EdgeStrict d -> EdgeStrict (fst (step fuel N cfg d o)).
Proof. exact step_EdgeStrict. Qed.

Theorem C05_node_attractors_complete : forall (N : net) (S : space) (motifs : list space) (A : state -> Prop), node_attr N S motifs A -> exists L : list state, In L (node_attractors_b N S motifs) /\ (forall s : state, A s <-> In s L).
Proof. exact node_attractors_b_complete. Qed.

Print Assumptions C05_skip_ops_keep_wellformed.
Print Assumptions C05_skip_ops_keep_faithful.
Print Assumptions C05_skip_ops_clear_caches.
Print Assumptions C05_check_seeds_ok.
Print Assumptions C05_edge_strict.
Print Assumptions C05_node_attractors_complete.
