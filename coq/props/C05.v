(* C05 -- Diagrams completed with skip nodes never lose an attractor

   PARTIAL, with a KNOWN FINDING (D4, see KNOWN_FINDINGS.jsonl): on the unchanged code motif-avoidant
   attractors in the intersection of skip nodes are lost, so the full statement is false of the faithful model.
   What is proved: the structural part for skip operations (invariants, cache clearing), and the exactness of
   the predicates (check_seeds / check_seeds_sound run on the implementation's seeds against brute-force
   attractors).  SkipRule.v models the documented exclusion rule under an IDEAL engine (every query returns exactly
   the attractors of the node outside the avoided spaces): C05_refuted exhibits, inside Coq, a network and history on
   which 8 of 16 attractors are represented by no node although every skip node follows the rule -- so the loss is a
   property of the rule, not of the candidate search; the same history is replayed on the code (corpus/C05.jsonl) and
   the model's per-node seed counts are compared with the code's on every modelable run.  ideal_seeds_sound is the
   half of the statement that survives (no spurious seeds).

   This file contains only restatements closed by `exact` (statements produced by Coq's own
   `Check` of the library lemma) plus non-vacuity Examples, each followed by Print Assumptions. *)
From Coq Require Import List Bool Arith NArith Lia Relations Permutation.
Import ListNotations.
From BB Require Import BN Brute SpaceFacts TrapFacts PercolateFacts AttractorFacts Diagram Invariants Checks Filter
  Strict PetriNet Control Meta FilterFacts PetriNetFacts TrappistFacts DiagramStruct DiagramSem1 DiagramCache
  DiagramDepth DiagramComplete Termination ControlFacts MetaFacts Candidates StrictFacts MinExpandFacts CandidatesFacts SymbolicTest SymbolicTestFacts Signed ReductionFacts ControlFacts2 Main Blocks BlocksFacts ObsFacts OwnerFacts CandidatesTerm
  PartialOwner BlockMath BlockComplete ASeeds ASeedsFacts LogChecks SkipRule SkipRuleFacts Names NamesFacts Perm PermFacts SCC SCCFacts SCCStruct ControlFacts3 SCCTerm FilterSym Main2 StrategyFacts ControlFacts4 SkipRuleFacts2 SCCComplete SCCAttr BlockComplete2 ControlFacts5 Iso SkipSem ControlFacts6.
From BB Require Import PyLibCore PySrcCore PySrcCoreFacts PyLibCore2 PySrcCore2 PySrcCore2Facts PySrcInitFacts PyLib PyLibSd PyLibCore PyLibSd2 PySrcSdBase PySrcSdMin PySrcSdMinFacts.

(* translator tie: the functions GENERATED from the current text of SuccessionDiagram.skip_to_minimal / skip_remaining (PySrcCore2.v) compute the model's skip_to_minimal_t / skip_remaining under the class invariant and the tape contract *)
Theorem C05_source_skip_to_minimal : forall (fuel : nat) (N : net) (cfg : config) (pnc : nat -> bool) (w : pyst) (i : nat) (tape : list space), CoreInv N w -> i < size (p_sd w) -> perm_of tape (min_traps_b N (n_space (get (p_sd w) i))) = true -> S (size (fst (skip_to_minimal_t N (p_sd w) i tape))) < fuel -> exists (w' : pyst) (b : bool), py_skip_to_minimal fuel N cfg pnc w tape i = CRet w' b /\ p_sd w' = fst (skip_to_minimal_t N (p_sd w) i tape) /\ snd (skip_to_minimal_t N (p_sd w) i tape) = RBool b /\ CoreInv N w'.
Proof. exact py_skip_to_minimal_spec. Qed.

Theorem C05_source_skip_remaining : forall (fuel : nat) (N : net) (cfg : config) (pnc : nat -> bool) (w : pyst) (tape : list space), CoreInv N w -> n_space (get (p_sd w) 0) = percolate_b N (top_space (nvars N)) -> perm_of tape (min_traps_b N (n_space (get (p_sd w) 0))) = true -> S (size (fst (skip_remaining N (p_sd w) tape))) < fuel -> exists (w' : pyst) (k : nat), py_skip_remaining fuel N cfg pnc w tape = CRet w' k /\ p_sd w' = fst (skip_remaining N (p_sd w) tape) /\ snd (skip_remaining N (p_sd w) tape) = RNat k /\ CoreInv N w'.
Proof. exact py_skip_remaining_spec. Qed.

(* ... and expand_minimal_spaces (skip_ignored) the model's expand_min *)
Theorem C05_source_expand_minimal_spaces : forall (fuel : nat) (N : net) (cfg : config) (d : sd) (start size_limit : option nat) (skip : bool) (tape : list space), SWF N d -> TrapNodes N d -> EdgeStrict d -> start_of start < size d -> perm_of tape (min_traps_b N (n_space (get d (start_of start)))) = true -> py_expand_minimal_spaces fuel N cfg d tape start size_limit skip = expand_min fuel N cfg d start size_limit skip tape.
Proof. exact py_expand_minimal_spaces_spec. Qed.

Theorem C05_skip_ops_keep_wellformed : forall (fuel : nat) (N : net) (cfg : config) (d : sd) (o : op), SWF N d -> SWF N (fst (step fuel N cfg d o)).
Proof. exact step_SWF. Qed.

Theorem C05_skip_ops_keep_faithful : forall (fuel : nat) (N : net) (cfg : config) (d : sd) (o : op), 1 <= max_motifs cfg -> SWF N d -> NoStubEdges d -> Faithful N d -> Faithful N (fst (step fuel N cfg d o)).
Proof. exact step_Faithful_all. Qed.

(* skipping discards attractor data computed while the node had no successors *)
Theorem C05_skip_ops_clear_caches : forall (fuel : nat) (N : net) (cfg : config) (d : sd) (o : op), SWF N d -> NoStubEdges d -> EdgeStrict d -> CacheOK d -> CacheOK (fst (step fuel N cfg d o)).
Proof. exact step_CacheOK. Qed.

Theorem C05_check_seeds_ok : forall (N : net) (S : space) (motifs : list space) (seeds : list state), check_seeds S (node_attractors_b N S motifs) seeds = VOk <-> (forall c : state, In c seeds -> in_space c S = true) /\ one_to_one N S motifs seeds.
Proof. exact check_seeds_ok. Qed.

(* skip edges lead to strictly smaller spaces (no self loops) *)
Theorem C05_edge_strict : forall (fuel : nat) (N : net) (cfg : config) (d : sd) (o : op), SWF N d -> TrapNodes N d -> EdgeStrict d -> EdgeStrict (fst (step fuel N cfg d o)).
Proof. exact step_EdgeStrict. Qed.

Theorem C05_node_attractors_complete : forall (N : net) (S : space) (motifs : list space) (A : state -> Prop), node_attr N S motifs A -> exists L : list state, In L (node_attractors_b N S motifs) /\ (forall s : state, A s <-> In s L).
Proof. exact node_attractors_b_complete. Qed.

(* KNOWN FINDING D4: the full statement fails on the faithful model *)
Theorem C05_refuted_on_the_model : exists L : list state, In L (attractors_b d4_net) /\ (forall i : nat, i < size d4_diagram -> exists l : list state, nth i d4_cache None = Some l) /\ (forall (i : nat) (l : list state) (s : state), nth i d4_cache None = Some l -> In s l -> mem_state s L = false).
Proof. exact C05_refuted. Qed.

Theorem C05_refuted_attractor : exists A : state -> Prop, attractor d4_net A /\ (forall (i : nat) (l : list state) (s : state), nth i d4_cache None = Some l -> In s l -> ~ A s).
Proof. exact C05_refuted_attractor. Qed.

(* 26 nodes, 16 attractors, 8 lost, none reported twice *)
Theorem C05_witness_counts : size d4_diagram = 26 /\ length (attractors_b d4_net) = 16 /\ length (lost (attractors_b d4_net) d4_cache) = 8 /\ forallb (fun A : list state => times_represented d4_cache A <=? 1) (attractors_b d4_net) = true.
Proof. exact d4_counts. Qed.

Theorem C05_ideal_seeds_sound : forall (N : net) (d : sd) (c : cache) (i : nat) (s : state), In s (ideal_seeds (attractors_b N) d c i) -> exists L : list state, In L (attractors_b N) /\ inside_b L (n_space (get d i)) = true /\ s = hd [] L.
Proof. exact ideal_seeds_sound. Qed.

Theorem C05_rule_only_for_skip_nodes : forall (d : sd) (c : cache) (i : nat), n_skip (get d i) = false -> avoid_of d c i = (if n_exp (get d i) then out_motifs d i else []).
Proof. exact no_skip_no_exclusion. Qed.

(* whatever was computed before, a leaf (minimal trap space) reports every attractor inside it *)
Theorem C05_leaf_attractors_never_lost : forall (N : net) (d : sd) (i : nat) (L : list state), i < size d -> is_minimal d i = true -> n_skip (get d i) = false -> In L (attractors_b N) -> L <> [] -> inside_b L (n_space (get d i)) = true -> represented (seeds_everywhere N d) L = true.
Proof. exact leaf_attractors_represented. Qed.

(* the positive half: without motif-avoidant attractors a diagram completed by skipping loses no attractor; the loss of C05_refuted needs a motif-avoidant attractor *)
Theorem C05_no_maa_nothing_lost : forall (N : net) (d : sd), MinFound N d -> (forall i : nat, i < size d -> is_minimal d i = true -> n_skip (get d i) = false) -> (forall L : list state, In L (attractors_b N) -> L <> [] /\ (exists M : space, min_trap N M /\ inside_b L M = true)) -> lost (attractors_b N) (seeds_everywhere N d) = [].
Proof. exact no_maa_nothing_lost. Qed.

(* every diagram reached by ANY history (skip operations included) satisfies AnyInv: well-formed, trap nodes, strict edges, faithful, and every skip node is expanded, its edges lead to minimal trap spaces with the space itself as motif, and EVERY minimal trap space inside it is one of its children *)
Theorem C05_skip_semantics_after_any_history : forall (fuel : nat) (N : net) (cfg : config) (h : list op) (d : sd) (r : result), 1 <= max_motifs cfg -> In (d, r) (run fuel N cfg (init N) h) -> AnyInv N d.
Proof. exact run_AnyInv. Qed.

Theorem C05_skip_semantics_step : forall (fuel : nat) (N : net) (cfg : config) (d : sd) (o : op), 1 <= max_motifs cfg -> AnyInv N d -> AnyInv N (fst (step fuel N cfg d o)).
Proof. exact step_AnyInv. Qed.

(* in any such diagram every minimal trap space inside an expanded node (canonical or skip) is inside one of its children or is the node itself: skipping never loses a minimal trap space *)
Theorem C05_expanded_node_keeps_minimal_traps : forall (N : net) (d : sd) (i : nat) (M : space), AnyInv N d -> i < size d -> n_exp (get d i) = true -> min_trap N M -> subspace M (n_space (get d i)) = true -> n_space (get d i) = M \/ (exists c : nat, In c (successors d i) /\ subspace M (n_space (get d c)) = true).
Proof. exact expanded_min_descends. Qed.

Print Assumptions C05_source_skip_to_minimal.
Print Assumptions C05_source_skip_remaining.
Print Assumptions C05_source_expand_minimal_spaces.
Print Assumptions C05_skip_ops_keep_wellformed.
Print Assumptions C05_skip_ops_keep_faithful.
Print Assumptions C05_skip_ops_clear_caches.
Print Assumptions C05_check_seeds_ok.
Print Assumptions C05_edge_strict.
Print Assumptions C05_node_attractors_complete.
Print Assumptions C05_refuted_on_the_model.
Print Assumptions C05_refuted_attractor.
Print Assumptions C05_witness_counts.
Print Assumptions C05_ideal_seeds_sound.
Print Assumptions C05_rule_only_for_skip_nodes.
Print Assumptions C05_leaf_attractors_never_lost.
Print Assumptions C05_no_maa_nothing_lost.
Print Assumptions C05_skip_semantics_after_any_history.
Print Assumptions C05_skip_semantics_step.
Print Assumptions C05_expanded_node_keeps_minimal_traps.
