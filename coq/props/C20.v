(* C20 -- Reported diagram metadata is accurate

   Model: node ids are list positions (contiguous from the root at 0, len = size); depths are maintained by
   raise_depth; find_node goes through the integer key; ObsFacts.is_subgraph_b models is_subgraph (after fix 087feea).
   PARTIAL: summary() is not modelled; it is decided by recomputation in the run.

   This file contains only restatements closed by `exact` (statements produced by Coq's own
   `Check` of the library lemma) plus non-vacuity Examples, each followed by Print Assumptions. *)
From Coq Require Import List Bool Arith NArith Lia Relations Permutation.
Import ListNotations.
From BB Require Import BN Brute SpaceFacts TrapFacts PercolateFacts AttractorFacts Diagram Invariants Checks Filter
  Strict PetriNet Control Meta FilterFacts PetriNetFacts TrappistFacts DiagramStruct DiagramSem1 DiagramCache
  DiagramDepth DiagramComplete Termination ControlFacts MetaFacts Candidates StrictFacts MinExpandFacts CandidatesFacts SymbolicTest SymbolicTestFacts Signed ReductionFacts ControlFacts2 Main Blocks BlocksFacts ObsFacts OwnerFacts CandidatesTerm
  PartialOwner BlockMath BlockComplete ASeeds ASeedsFacts LogChecks SkipRule SkipRuleFacts Names NamesFacts Perm PermFacts SCC SCCFacts SCCStruct ControlFacts3 SCCTerm FilterSym Main2 StrategyFacts ControlFacts4 SkipRuleFacts2 SCCComplete SCCAttr BlockComplete2 ControlFacts5 Iso SkipSem ControlFacts6.
From BB Require Import PyLib PySrcBase PySrcKey PySrcKeyFacts PyLibCore PySrcCore PySrcCoreFacts PyLibCore2 PySrcCore2 PySrcCore2Facts PySrcInitFacts PyLibSd PyLibPerc PySrcIso PySrcIsoFacts PyLib PyLibCore PySrcCore PySrcCoreFacts PySrcGetters PySrcGettersFacts.

(* translator tie: SuccessionDiagram.is_subgraph / is_isomorphic as generated from the source compute the model's is_subgraph_b / is_isomorphic_b (whose specs are is_subgraph_b_spec / is_isomorphic_b_spec) *)
Theorem C20_source_is_subgraph : forall a b : sd, py_is_subgraph a b = Some (is_subgraph_b a b).
Proof. exact py_is_subgraph_spec. Qed.

Theorem C20_source_is_isomorphic : forall a b : sd, py_is_isomorphic a b = Some (is_isomorphic_b a b).
Proof. exact py_is_isomorphic_spec. Qed.

(* SuccessionDiagram.find_node, pinned to its current text (PySrcGetters.v), is the model's find_node whenever node_indices is consistent with the graph (part of CoreInv, kept by every method) -- hence exact: *)
Theorem C20_source_find_node : forall (w : pyst) (X : space), idx_ok w -> py_find_node w X = find_node (p_sd w) X.
Proof. exact py_find_node_spec. Qed.

Theorem C20_source_find_node_exact : forall (N : net) (w : pyst) (X : list (option bool)) (i : nat), CoreInv N w -> length X = nvars N -> py_find_node w X = Some i <-> i < size (p_sd w) /\ n_space (get (p_sd w) i) = X.
Proof. exact py_find_node_exact. Qed.

Theorem C20_source_find_node_none : forall (N : net) (w : pyst) (X : list (option bool)), CoreInv N w -> length X = nvars N -> py_find_node w X = None <-> ~ In X (spaces (p_sd w)).
Proof. exact py_find_node_none. Qed.

(* the id iterators enumerate the nodes / the expanded nodes / the stubs *)
Theorem C20_source_node_ids : forall (w : pyst) (i : nat), In i (py_node_ids w) <-> i < size (p_sd w).
Proof. exact py_node_ids_spec. Qed.

Theorem C20_source_expanded_ids : forall (w : pyst) (i : nat), In i (py_expanded_ids w) <-> i < size (p_sd w) /\ n_exp (get (p_sd w) i) = true.
Proof. exact py_expanded_ids_spec. Qed.

Theorem C20_source_stub_ids : forall (w : pyst) (i : nat), In i (py_stub_ids w) <-> i < size (p_sd w) /\ n_exp (get (p_sd w) i) = false.
Proof. exact py_stub_ids_spec. Qed.

(* edge_stable_motif is the first of edge_all_stable_motifs (also reduced), defined exactly on the edges *)
Theorem C20_source_edge_stable_motif_first : forall (w : pyst) (p c : nat) (red : bool), py_edge_stable_motif w p c red = option_map (fun l : list (list (option bool)) => hd [] l) (py_edge_all_stable_motifs w p c red).
Proof. exact py_edge_stable_motif_first. Qed.

Theorem C20_source_edge_stable_motif_defined : forall (w : pyst) (p c : nat) (red : bool), (exists m : space, py_edge_stable_motif w p c red = Some m) <-> has_edge (p_sd w) p c = true.
Proof. exact py_edge_stable_motif_defined. Qed.

Theorem C20_source_init : forall (fuel : nat) (N : net) (cfg : config) (pnc : nat -> bool), 0 < fuel -> exists w : pyst, py_init fuel N cfg pnc = CNext w Datatypes.tt /\ p_sd w = init N /\ CoreInv N w.
Proof. exact py_init_spec. Qed.

(* translator tie: SuccessionDiagram.depth as generated from the source = Diagram.depth *)
Theorem C20_source_depth : forall (fuel : nat) (N : net) (cfg : config) (pnc : nat -> bool) (w : pyst), py_depth fuel N cfg pnc w = CRet w (depth (p_sd w)).
Proof. exact py_depth_spec. Qed.

(* ... _ensure_node / _ensure_edge / _update_node_depth compute Diagram.ensure_node *)
Theorem C20_source_ensure_node : forall (fuel : nat) (N : net) (cfg : config) (pnc : nat -> bool) (w : pyst) (p : nat) (m : list (option bool)), CoreInv N w -> p < size (p_sd w) -> length m = nvars N -> trap_space N m -> strict_subspace (percolate_b N m) (n_space (get (p_sd w) p)) -> S (size (p_sd w)) < fuel -> exists w' : pyst, py_ensure_node fuel N cfg pnc w (Some p) m = CRet w' (snd (ensure_node N (p_sd w) (Some p) m)) /\ p_sd w' = fst (ensure_node N (p_sd w) (Some p) m) /\ CoreInv N w'.
Proof. exact py_ensure_node_spec. Qed.

(* translator tie: __len__, root and node_is_minimal as generated from the source *)
Theorem C20_source_len : forall (fuel : nat) (N : net) (cfg : config) (pnc : nat -> bool) (w : pyst), py_len fuel N cfg pnc w = CRet w (size (p_sd w)).
Proof. exact py_len_spec. Qed.

Theorem C20_source_root : forall (fuel : nat) (N : net) (cfg : config) (pnc : nat -> bool) (w : pyst), py_root fuel N cfg pnc w = CRet w 0.
Proof. exact py_root_spec. Qed.

Theorem C20_source_node_is_minimal : forall (fuel : nat) (N : net) (cfg : config) (pnc : nat -> bool) (w : pyst) (i : nat), py_node_is_minimal fuel N cfg pnc w i = CRet w (is_minimal (p_sd w) i).
Proof. exact py_node_is_minimal_spec. Qed.

Theorem C20_find_node_exact : forall (N : net) (d : sd) (X : list (option bool)) (i : nat), SWF N d -> length X = nvars N -> find_node d X = Some i <-> i < size d /\ n_space (get d i) = X.
Proof. exact find_node_exact. Qed.

Theorem C20_find_node_none : forall (N : net) (d : sd) (X : list (option bool)), SWF N d -> length X = nvars N -> find_node d X = None <-> ~ In X (spaces d).
Proof. exact find_node_none. Qed.

(* ids and spaces are stable *)
Theorem C20_step_extends : forall (fuel : nat) (N : net) (cfg : config) (d : sd) (o : op), SWF N d -> extends d (fst (step fuel N cfg d o)).
Proof. exact step_extends. Qed.

Theorem C20_depth_longest_path_all_histories : forall (fuel : nat) (N : net) (cfg : config) (h : list op) (d : sd) (r : result), In (d, r) (run fuel N cfg (init N) h) -> DepthOK d /\ EdgeDepth d /\ Anch d.
Proof. exact run_DepthOK_all. Qed.

Theorem C20_depth_longest_path : forall (fuel : nat) (N : net) (cfg : config) (h : list op) (d : sd) (r : result), In (d, r) (run fuel N cfg (init N) h) -> (forall i len : nat, i < size d -> path d 0 i len -> len <= depth d) /\ (depth d = 0 \/ (exists i : nat, i < size d /\ path d 0 i (depth d))).
Proof. exact depth_longest_path. Qed.

Theorem C20_depth_is_max : forall (d : sd) (i : nat), i < size d -> n_depth (get d i) <= depth d.
Proof. exact depth_is_max. Qed.

Theorem C20_depth_attained : forall d : sd, 0 < size d -> exists i : nat, i < size d /\ n_depth (get d i) = depth d.
Proof. exact depth_attained. Qed.

Theorem C20_raise_depth_spec : forall (N : net) (fuel : nat) (d : sd) (c dp : nat), SWF N d -> EdgeStrict d -> c < size d -> size d <= fuel -> let d' := raise_depth fuel d c dp in n_depth (get d' c) = Nat.max (n_depth (get d c)) dp /\ (forall i : nat, n_depth (get d i) <= n_depth (get d' i)) /\ (forall i : nat, n_depth (get d' i) = n_depth (get d i) \/ (exists k : nat, path d c i k /\ n_depth (get d' i) = dp + k)) /\ (forall e : edge, In e (sd_edges d) -> S (n_depth (get d (e_src e))) <= n_depth (get d (e_dst e)) -> S (n_depth (get d' (e_src e))) <= n_depth (get d' (e_dst e))) /\ (forall e : edge, In e (sd_edges d) -> n_depth (get d' (e_src e)) <> n_depth (get d (e_src e)) -> S (n_depth (get d' (e_src e))) <= n_depth (get d' (e_dst e))).
Proof. exact raise_depth_spec. Qed.

Theorem C20_space_key_inj : forall x y : space, length x = length y -> space_key x = space_key y -> x = y.
Proof. exact space_key_inj. Qed.

(* node-set and edge-set inclusion *)
Theorem C20_is_subgraph_spec : forall (N : net) (a b : sd), SWF N a -> SWF N b -> NoStubEdges a -> NoStubEdges b -> Rooted a -> is_subgraph_b a b = true <-> (forall X : space, In X (spaces a) -> In X (spaces b)) /\ (forall e : edge, In e (sd_edges a) -> exists e' : edge, In e' (sd_edges b) /\ n_space (get b (e_src e')) = n_space (get a (e_src e)) /\ n_space (get b (e_dst e')) = n_space (get a (e_dst e))).
Proof. exact is_subgraph_b_spec. Qed.

(* depth = longest root path after block expansion (source shortcut included) *)
Theorem C20_block_expansion_depth : forall (fuel : nat) (N : net) (cfg : config) (d : sd) (maa opt : bool) (sz : option nat) (tape : list bool), 1 <= max_motifs cfg -> DiagramDepth.DInv N d -> let d' := fst (expand_block fuel N cfg d maa opt sz tape) in DepthOK d' /\ EdgeDepth d'.
Proof. exact expand_block_DepthOK. Qed.

Theorem C20_aseeds_expansion_depth : forall (fuel : nat) (N : net) (cfg : config) (d : sd) (sz : option nat) (min_tape : list space) (tape : list (list nat)), 1 <= max_motifs cfg -> DiagramDepth.DInv N d -> let d' := fst (expand_aseeds fuel N cfg d sz min_tape tape) in DepthOK d' /\ EdgeDepth d'.
Proof. exact expand_aseeds_DepthOK. Qed.

(* translator tie: the node key generated from the current source of space_utils.space_unique_key is the model's space_key *)
Theorem C20_source_space_unique_key : forall (n : nat) (d : pdict), wf_dict n d -> py_space_unique_key d n = Some (space_key (to_space n d)).
Proof. exact py_space_unique_key_spec. Qed.

(* IndexError exactly for unknown variables *)
Theorem C20_source_space_unique_key_raises : forall (n : nat) (d : list (nat * bool)), (exists k : nat, In k (map fst d) /\ n <= k) -> py_space_unique_key d n = None.
Proof. exact py_space_unique_key_raises. Qed.

(* is_isomorphic = is_subgraph both ways = same node spaces and same edges *)
Theorem C20_is_isomorphic_spec : forall (N : net) (a b : sd), SWF N a -> SWF N b -> NoStubEdges a -> NoStubEdges b -> Rooted a -> Rooted b -> is_isomorphic_b a b = true <-> (forall X : space, In X (spaces a) <-> In X (spaces b)) /\ edge_pairs_incl a b /\ edge_pairs_incl b a.
Proof. exact is_isomorphic_b_spec. Qed.

Theorem C20_is_isomorphic_symmetric : forall a b : sd, is_isomorphic_b a b = is_isomorphic_b b a.
Proof. exact is_isomorphic_b_sym. Qed.

Print Assumptions C20_source_is_subgraph.
Print Assumptions C20_source_is_isomorphic.
Print Assumptions C20_source_find_node.
Print Assumptions C20_source_find_node_exact.
Print Assumptions C20_source_find_node_none.
Print Assumptions C20_source_node_ids.
Print Assumptions C20_source_expanded_ids.
Print Assumptions C20_source_stub_ids.
Print Assumptions C20_source_edge_stable_motif_first.
Print Assumptions C20_source_edge_stable_motif_defined.
Print Assumptions C20_source_init.
Print Assumptions C20_source_depth.
Print Assumptions C20_source_ensure_node.
Print Assumptions C20_source_len.
Print Assumptions C20_source_root.
Print Assumptions C20_source_node_is_minimal.
Print Assumptions C20_find_node_exact.
Print Assumptions C20_find_node_none.
Print Assumptions C20_step_extends.
Print Assumptions C20_depth_longest_path_all_histories.
Print Assumptions C20_depth_longest_path.
Print Assumptions C20_depth_is_max.
Print Assumptions C20_depth_attained.
Print Assumptions C20_raise_depth_spec.
Print Assumptions C20_space_key_inj.
Print Assumptions C20_is_subgraph_spec.
Print Assumptions C20_block_expansion_depth.
Print Assumptions C20_aseeds_expansion_depth.
Print Assumptions C20_source_space_unique_key.
Print Assumptions C20_source_space_unique_key_raises.
Print Assumptions C20_is_isomorphic_spec.
Print Assumptions C20_is_isomorphic_symmetric.
