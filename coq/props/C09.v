(* C09 -- The trap-space solver returns exactly the requested trap spaces

   Model: PetriNet.trap_program / deadlock_program generate the rules that trappist_core.py sends to clingo
   (compared with the real program text on every run).  The theorems characterise the classical models of
   those programs over the choice atoms; that clingo enumerates exactly the subset-extremal models is an
   engine contract, checked on every recorded call against the brute-force twins.

   This file contains only restatements closed by `exact` (statements produced by Coq's own
   `Check` of the library lemma) plus non-vacuity Examples, each followed by Print Assumptions. *)
From Coq Require Import List Bool Arith NArith Lia Relations Permutation.
Import ListNotations.
From BB Require Import BN Brute SpaceFacts TrapFacts PercolateFacts AttractorFacts Diagram Invariants Checks Filter
  Strict PetriNet Control Meta FilterFacts PetriNetFacts TrappistFacts DiagramStruct DiagramSem1 DiagramCache
  DiagramDepth DiagramComplete Termination ControlFacts MetaFacts Candidates StrictFacts MinExpandFacts CandidatesFacts SymbolicTest SymbolicTestFacts Signed ReductionFacts ControlFacts2 Main Blocks BlocksFacts ObsFacts OwnerFacts CandidatesTerm
  PartialOwner BlockMath BlockComplete ASeeds ASeedsFacts LogChecks SkipRule SkipRuleFacts Names NamesFacts Perm PermFacts SCC SCCFacts SCCStruct ControlFacts3 SCCTerm FilterSym Main2 StrategyFacts ControlFacts4 SkipRuleFacts2 SCCComplete SCCAttr BlockComplete2 ControlFacts5 Iso SkipSem ControlFacts6.
From BB Require Import PetriNet PySrcClingo PySrcClingoFacts PySrcCollect PySrcCollectFacts.

(* translator tie for the answer-set readers of trappist_core.py (PySrcClingo.v: loops checked statement by statement, the stored polarity read from the text): on a conflict-free model the dict returned by _clingo_model_to_space is the model's space_of_model (INVERTED polarity: a true atom b1_v fixes v to 0) ... *)
Theorem C09_source_clingo_model_to_space : forall (n : nat) (atoms : list (nat * bool)), NoDup (map fst atoms) -> exists kv : list (nat * bool), py_clingo_model_to_space atoms = Some kv /\ (forall v : nat, v < n -> kv_lookup kv v = nth v (space_of_model n (model_of_atoms atoms)) None).
Proof. exact py_clingo_model_to_space_spec. Qed.

(* ... and the one returned by _clingo_model_to_fixed_point is state_of_model (direct polarity) *)
Theorem C09_source_clingo_model_to_fixed_point : forall (n : nat) (atoms : list (nat * bool)), NoDup (map fst atoms) -> (forall v : nat, v < n -> In v (map fst atoms)) -> exists kv : list (nat * bool), py_clingo_model_to_fixed_point atoms = Some kv /\ (forall v : nat, v < n -> kv_lookup kv v = Some (nth v (state_of_model n (model_of_atoms atoms)) false)).
Proof. exact py_clingo_model_to_fixed_point_spec. Qed.

Theorem C09_source_clingo_model_conflict_asserts : forall v : nat, py_clingo_model_to_space [(v, true); (v, false)] = None.
Proof. exact py_clingo_model_to_space_conflict. Qed.

(* 'a solution limit only truncates the list', for the SOURCE TEXT: the collecting half of trappist (guard for a non-positive limit, the save_result closure, the enumerator stopping when it returns False -- PySrcCollect.v, comparisons read from the text) returns the first `limit` answers of the enumeration in order, all of them without a limit *)
Theorem C09_source_trappist_limit_truncates : forall (A : Type) (limit : option nat) (answers : list A), py_trappist_collect limit answers = truncated limit answers.
Proof. exact py_trappist_collect_spec. Qed.

Theorem C09_source_reduced_stg_limit_truncates : forall (A : Type) (limit : option nat) (answers : list A), py_reduced_stg_collect limit answers = truncated limit answers.
Proof. exact py_reduced_stg_collect_spec. Qed.

Theorem C09_source_trappist_limit_length : forall (A : Type) (limit : option nat) (answers : list A), length (py_trappist_collect limit answers) = match limit with | Some l => Nat.min l (length answers) | None => length answers end.
Proof. exact py_trappist_collect_length. Qed.

(* models = trap spaces inside ensure and not inside an avoided space *)
Theorem C09_trap_program_min : forall (N : net) (pn : pnet) (ensure : list (option bool)) (avoid : list (list (option bool))) (srcs : list nat) (S : list (option bool)), let n := nvars N in pn_wf n pn -> pn_faithful N pn -> length ensure = n -> (forall a : list (option bool), In a avoid -> length a = n) -> length S = n -> is_model (model_of_space S) (trap_program PMin false pn ensure avoid srcs) = true <-> trap_space N S /\ subspace S ensure = true /\ forallb (fun a : space => negb (subspace S a)) avoid = true.
Proof. exact trap_program_min. Qed.

Theorem C09_trap_program_fix : forall (N : net) (pn : pnet) (ensure : list (option bool)) (avoid : list (list (option bool))) (srcs : list nat) (S : list (option bool)), let n := nvars N in pn_wf n pn -> pn_faithful N pn -> length ensure = n -> (forall a : list (option bool), In a avoid -> length a = n) -> length S = n -> is_model (model_of_space S) (trap_program PFix false pn ensure avoid srcs) = true <-> is_full S = true /\ trap_space N S /\ subspace S ensure = true /\ forallb (fun a : space => negb (subspace S a)) avoid = true.
Proof. exact trap_program_fix. Qed.

Theorem C09_trap_program_max : forall (N : net) (pn : pnet) (ensure : list (option bool)) (avoid : list (list (option bool))) (srcs : list nat) (S : list (option bool)), let n := nvars N in pn_wf n pn -> pn_faithful N pn -> length ensure = n -> (forall a : list (option bool), In a avoid -> length a = n) -> length S = n -> (exists v : nat, v < n /\ nth v ensure None = None) -> is_model (model_of_space S) (trap_program PMax false pn ensure avoid srcs) = true <-> trap_space N S /\ subspace S ensure = true /\ forallb (fun a : space => negb (subspace S a)) avoid = true /\ (exists v : nat, v < n /\ nth v ensure None = None /\ nth v S None <> None) /\ (forall v : nat, In v srcs -> nth v ensure None = None -> nth v S None <> None).
Proof. exact trap_program_max_gen. Qed.

(* time reversal *)
Theorem C09_trap_program_reverse : forall (N : net) (pn : pnet) (ensure : list (option bool)) (avoid : list (list (option bool))) (srcs : list nat) (S : list (option bool)), let n := nvars N in pn_wf n pn -> pn_faithful N pn -> length ensure = n -> (forall a : list (option bool), In a avoid -> length a = n) -> length S = n -> is_model (model_of_space S) (trap_program PMin true pn ensure avoid srcs) = true <-> rev_trap_space N S /\ subspace S ensure = true /\ forallb (fun a : space => negb (subspace S a)) avoid = true.
Proof. exact trap_program_reverse. Qed.

(* more atoms = smaller space *)
Theorem C09_model_order : forall S T : list (option bool), length S = length T -> (forall p : place, model_of_space T p = true -> model_of_space S p = true) <-> subspace S T = true.
Proof. exact model_order. Qed.

Theorem C09_min_models_are_min_traps : forall (N : net) (pn : pnet) (ensure S : list (option bool)), let n := nvars N in pn_wf n pn -> pn_faithful N pn -> length ensure = n -> length S = n -> is_model (model_of_space S) (trap_program PMin false pn ensure [] []) = true /\ (forall S' : list (option bool), length S' = n -> is_model (model_of_space S') (trap_program PMin false pn ensure [] []) = true -> (forall p : place, model_of_space S p = true -> model_of_space S' p = true) -> S' = S) <-> In S (min_traps_b N ensure).
Proof. exact min_models_are_min_traps. Qed.

Theorem C09_max_models_are_max_traps : forall (N : net) (pn : pnet) (ensure : list (option bool)) (srcs : list nat) (S : list (option bool)), let n := nvars N in pn_wf n pn -> pn_faithful N pn -> length ensure = n -> length S = n -> (exists v : nat, v < n /\ nth v ensure None = None) -> (forall v : nat, In v srcs -> v < n) -> is_model (model_of_space S) (trap_program PMax false pn ensure [] srcs) = true /\ (forall S' : list (option bool), length S' = n -> is_model (model_of_space S') (trap_program PMax false pn ensure [] srcs) = true -> (forall p : place, model_of_space S' p = true -> model_of_space S p = true) -> S' = S) <-> In S (max_traps_b N ensure (filter (fun v : nat => match nth v ensure None with | Some _ => false | None => true end) srcs)).
Proof. exact max_models_are_max_traps. Qed.

Theorem C09_conflict_free : forall (pb : problem) (rev : bool) (pn : pnet) (ensure : space) (avoid : list space) (srcs : list nat) (M : interp) (n : nat), p_vars pn = seq 0 n -> is_model M (trap_program pb rev pn ensure avoid srcs) = true -> conflict_free n M.
Proof. exact trap_program_models_conflict_free. Qed.

(* reduced transition graph *)
Theorem C09_deadlock_program_models : forall (N : net) (pn : pnet) (R ensure : list (option bool)) (avoid : list (list (option bool))) (s : list bool), let n := nvars N in pn_wf n pn -> pn_faithful N pn -> length R = n -> length ensure = n -> (forall a : list (option bool), In a avoid -> length a = n) -> length s = n -> is_model (model_of_state s) (deadlock_program (reduce_pn pn R) ensure avoid) = true <-> In s (reduced_fixed_b N R ensure avoid).
Proof. exact deadlock_program_models. Qed.

Theorem C09_deadlock_models_are_states : forall (pn : pnet) (ensure : space) (avoid : list space) (M : interp) (n : nat), p_vars pn = seq 0 n -> is_model M (deadlock_program pn ensure avoid) = true -> forall v : nat, v < n -> xorb (M (v, true)) (M (v, false)) = true.
Proof. exact deadlock_program_models_are_states. Qed.

Theorem C09_space_model_roundtrip : forall S : list (option bool), space_of_model (length S) (model_of_space S) = S.
Proof. exact space_model_roundtrip. Qed.

Print Assumptions C09_source_clingo_model_to_space.
Print Assumptions C09_source_clingo_model_to_fixed_point.
Print Assumptions C09_source_clingo_model_conflict_asserts.
Print Assumptions C09_source_trappist_limit_truncates.
Print Assumptions C09_source_reduced_stg_limit_truncates.
Print Assumptions C09_source_trappist_limit_length.
Print Assumptions C09_trap_program_min.
Print Assumptions C09_trap_program_fix.
Print Assumptions C09_trap_program_max.
Print Assumptions C09_trap_program_reverse.
Print Assumptions C09_model_order.
Print Assumptions C09_min_models_are_min_traps.
Print Assumptions C09_max_models_are_max_traps.
Print Assumptions C09_conflict_free.
Print Assumptions C09_deadlock_program_models.
Print Assumptions C09_deadlock_models_are_states.
Print Assumptions C09_space_model_roundtrip.
