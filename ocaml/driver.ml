(* driver.ml -- thin text front-end around the code extracted from Coq.
   One command per input line, one output line per command. No logic of its own
   beyond parsing/printing. *)
open Bbmodel_core

let rec nat_of_int i = if i <= 0 then O else S (nat_of_int (i - 1))
let rec int_of_nat = function O -> 0 | S k -> 1 + int_of_nat k
let space_of_string s : space =
  List.init (String.length s) (fun i -> match s.[i] with '0' -> Some false | '1' -> Some true | _ -> None)
let string_of_space (sp : space) =
  String.concat "" (List.map (function None -> "*" | Some false -> "0" | Some true -> "1") sp)
let state_of_string s : state = List.init (String.length s) (fun i -> s.[i] = '1')
let string_of_state (st : state) = String.concat "" (List.map (fun b -> if b then "1" else "0") st)
let split c s = if s = "-" || s = "" then [] else String.split_on_char c s
let spaces_of_string s = List.map space_of_string (split ';' s)
let nats_of_string s = List.map (fun x -> nat_of_int (int_of_string x)) (split ',' s)
let opt_nat s = if s = "-" then None else Some (nat_of_int (int_of_string s))
let str_spaces l = if l = [] then "-" else String.concat ";" (List.map string_of_space l)
let str_states l = if l = [] then "-" else String.concat "," (List.map string_of_state l)
let str_nats l = if l = [] then "-" else String.concat "," (List.map (fun k -> string_of_int (int_of_nat k)) l)

(* names as lists of code points: "97,123;~;98" (~ = empty name) *)
let rec pos_of_int i = if i <= 1 then XH else if i land 1 = 1 then XI (pos_of_int (i lsr 1)) else XO (pos_of_int (i lsr 1))
let n_of_int i = if i <= 0 then N0 else Npos (pos_of_int i)
let rec int_of_pos = function XH -> 1 | XO p -> 2 * int_of_pos p | XI p -> 2 * int_of_pos p + 1
let int_of_n = function N0 -> 0 | Npos p -> int_of_pos p
let name_of_string s : name = if s = "~" then [] else List.map (fun x -> n_of_int (int_of_string x)) (String.split_on_char ',' s)
let string_of_name (nm : name) = if nm = [] then "~" else String.concat "," (List.map (fun c -> string_of_int (int_of_n c)) nm)
let names_of_string s = if s = "-" then [] else List.map name_of_string (String.split_on_char ';' s)
let str_names l = if l = [] then "-" else String.concat ";" (List.map string_of_name l)

let str_tag = function None -> "0" | Some _ -> "1"
let str_result = function
  | RUnit -> "unit" | RBool b -> if b then "true" else "false"
  | RNat k -> "nat:" ^ string_of_int (int_of_nat k)
  | RIds l -> "ids:" ^ str_nats l
  | RRaised ErrMotifLimit -> "raised:motiflimit" | RRaised ErrKey -> "raised:key"
  | RRaised ErrAssert -> "raised:assert" | RRaised ErrLimit -> "raised:runtime" | RFuel -> "outoffuel"
(* outcome syntax: "r" raised, "-" not called, "<len>" or "<len>s" (s = sets known) *)
let outcome_of_string s =
  if s = "r" then OutRaised else if s = "-" then OutLen (O, false)
  else if s.[String.length s - 1] = 's' then OutLen (nat_of_int (int_of_string (String.sub s 0 (String.length s - 1))), true)
  else OutLen (nat_of_int (int_of_string s), false)

let str_verdict = function
  | VOk -> "ok" | VSeedNotInAttractor s -> "notinattr:" ^ string_of_state s
  | VDuplicate s -> "dup:" ^ string_of_state s | VMissed a -> "missed:" ^ str_states a
  | VOutside s -> "outside:" ^ string_of_state s | VSetMismatch s -> "setmismatch:" ^ string_of_state s
let states_of_string s = List.map state_of_string (split ',' s)
let sets_of_string s = if s = "-" || s = "" then [] else List.map states_of_string (String.split_on_char '/' s)

let str_place (p : place) = (if snd p then "b1_" else "b0_") ^ string_of_int (int_of_nat (fst p))
let str_places sep l = String.concat sep (List.sort compare (List.map str_place l))
let str_rule = function
  | RChoice a -> "{" ^ str_place a ^ "}."
  | RConstraint b -> ":- " ^ str_places ", " b ^ "."
  | RFact a -> str_place a ^ "."
  | RDisj (h, []) -> str_places "; " h ^ "."
  | RDisj (h, b) -> str_places "; " h ^ " :- " ^ str_places ", " b ^ "."
  | RFalse -> "#false."
let str_rules l = String.concat "|" (List.sort compare (List.map str_rule l))
let str_trans (t : transition) =
  Printf.sprintf "%d %s %s" (int_of_nat t.t_var) (if t.t_up then "up" else "down") (string_of_space t.t_cond)
let str_pn (pn : pnet) = "vars=" ^ str_nats pn.p_vars ^ " trans=" ^
  (if pn.p_trans = [] then "-" else String.concat "|" (List.sort compare (List.map str_trans pn.p_trans)))

let dump (d : sd) =
  let ns = List.map (fun x ->
    Printf.sprintf "%s,%d,%d,%d,%s%s%s" (string_of_space x.n_space) (int_of_nat x.n_depth)
      (if x.n_exp then 1 else 0) (if x.n_skip then 1 else 0)
      (str_tag x.n_cands) (str_tag x.n_seeds) (str_tag x.n_sets)) d.sd_nodes in
  let es = List.map (fun e ->
    Printf.sprintf "%d>%d:%s" (int_of_nat e.e_src) (int_of_nat e.e_dst) (str_spaces e.e_motifs)) d.sd_edges in
  "nodes=" ^ String.concat "|" ns ^ " edges=" ^ (if es = [] then "-" else String.concat "|" es)

let () =
  let ic = if Array.length Sys.argv > 1 then open_in Sys.argv.(1) else stdin in
  let net = ref ([] : net) and cfg = ref (nat_of_int 100000) and fuel = ref (nat_of_int 100000) in
  let cur = ref { sd_nodes = []; sd_edges = [] } in
  let pn = ref { p_vars = []; p_trans = [] } in
  let attrs : state list list option ref = ref None in
  let get_attrs () = match !attrs with Some a -> a | None -> let a = attractors_b !net in attrs := Some a; a in
  let read_bits l = List.init (String.length l) (fun i -> l.[i] = '1') in
  (try
     while true do
       let line = String.trim (input_line ic) in
       if line <> "" then begin
         let tk = Array.of_list (String.split_on_char ' ' line) in
         let a i = tk.(i) in
         let out =
           match a 0 with
           | "net" ->
               let n = int_of_string (a 1) in
               let tabs = List.init n (fun _ -> read_bits (String.trim (input_line ic))) in
               net := net_of_tables (nat_of_int n) tabs; attrs := None; "ok"
           | "cfg" -> cfg := nat_of_int (int_of_string (a 1)); "ok"
           | "fuel" -> fuel := nat_of_int (int_of_string (a 1)); "ok"
           | "percolate" -> string_of_space (percolate_b !net (space_of_string (a 1)))
           | "maxtraps" -> str_spaces (max_traps_b !net (space_of_string (a 1)) (nats_of_string (a 2)))
           | "mintraps" -> str_spaces (min_traps_b !net (space_of_string (a 1)))
           | "traps" -> str_spaces (traps_in !net (space_of_string (a 1)))
           | "istrap" -> if is_trap_b !net (space_of_string (a 1)) then "1" else "0"
           | "sources" -> str_nats (sources_b !net)
           | "conston" -> (match const_on_b !net (nat_of_int (int_of_string (a 1))) (space_of_string (a 2)) with
                           | None -> "n" | Some true -> "1" | Some false -> "0")
           | "strict" -> string_of_space (percolate_strict_b !net (space_of_string (a 1)))
           | "strictord" -> string_of_space (percolate_strict_ord !net (nats_of_string (a 1)) (space_of_string (a 2)))
           | "conflicts" -> str_nats (conflicts_b !net (space_of_string (a 1)))
           | "ldois" ->
               let l = single_ldois !net in
               if l = [] then "-" else String.concat " " (List.map (fun ((v, b), sp) ->
                 Printf.sprintf "%d,%d,%s" (int_of_nat v) (if b then 1 else 0) (string_of_space sp)) l)
           | "drivers" ->
               let l = single_drivers !net (space_of_string (a 1)) in
               if l = [] then "-" else String.concat " " (List.map (fun (v, b) -> Printf.sprintf "%d,%d" (int_of_nat v) (if b then 1 else 0)) l)
           | "pnload" ->
               let vars = nats_of_string (a 1) in
               let k = int_of_string (a 2) in
               let ts = List.init k (fun _ ->
                 let f = Array.of_list (String.split_on_char ' ' (String.trim (input_line ic))) in
                 { t_var = nat_of_int (int_of_string f.(0)); t_up = (f.(1) = "up"); t_cond = space_of_string f.(2) }) in
               pn := { p_vars = vars; p_trans = ts }; "ok"
           | "pnfaithful" -> if pn_faithful_b !net (space_of_string (a 1)) !pn then "1" else "0"
           | "pnrestrict" -> str_pn (restrict_pn !pn (space_of_string (a 1)))
           | "pnreduce" -> str_pn (reduce_pn !pn (space_of_string (a 1)))
           | "pnsources" -> str_nats (pn_sources !pn)
           | "pndump" -> str_pn !pn
           | "trapprog" ->
               let pb = (match a 1 with "min" -> PMin | "max" -> PMax | _ -> PFix) in
               str_rules (trap_program pb (a 2 = "1") !pn (space_of_string (a 3)) (spaces_of_string (a 4)) (nats_of_string (a 5)))
           | "deadprog" ->
               str_rules (deadlock_program (reduce_pn !pn (space_of_string (a 1))) (space_of_string (a 2)) (spaces_of_string (a 3)))
           | "control" ->
               let mx = opt_nat (a 3) in
               let skipff = (try a 5 = "1" with _ -> false) in
               let res = succession_control_ff !net !cur (space_of_string (a 1)) (a 2 = "all") mx (nats_of_string (a 4)) skipff in
               if res = [] then "-" else String.concat " " (List.map (fun ((succ, ctl), ok) ->
                 (if succ = [] then "-" else String.concat ";" (List.map string_of_space succ)) ^ "!" ^
                 (if ctl = [] then "-" else String.concat "/" (List.map (fun c -> if c = [] then "~" else String.concat ";" (List.sort compare (List.map string_of_space c))) ctl)) ^ "!" ^
                 (if ok then "1" else "0")) res)
           | "successions" ->
               let res = successions !cur (space_of_string (a 1)) in
               if res = [] then "none" else String.concat " " (List.map (fun succ -> if succ = [] then "-" else String.concat ";" (List.map string_of_space succ)) res)
           | "forced" ->
               if forced_b (override !net (space_of_string (a 1))) (space_of_string (a 2)) (space_of_string (a 3)) then "1" else "0"
           | "nonegwalk" -> if no_neg_walk_b !net (space_of_string (a 1)) (nats_of_string (a 2)) then "1" else "0"
           | "redok" -> if nfvs_reduction_ok_b !net (space_of_string (a 1)) (spaces_of_string (a 2)) (nats_of_string (a 3)) then "1" else "0"
           | "heurret" ->
               let r = heuristic_retained !net (space_of_string (a 1)) (nats_of_string (a 3)) (spaces_of_string (a 2)) in
               if r = [] then "-" else String.concat "," (List.map (fun (v, b) -> Printf.sprintf "%d:%d" (int_of_nat v) (if b then 1 else 0)) r)
           | "candpipe" ->
               (* candpipe SPACE AVOIDS NFVS RINIT THRESHOLD LIMIT BUDGET GREEDY TAPE *)
               let parse_ret s = List.map (fun kv -> match String.split_on_char ':' kv with
                                   | [k; v] -> (nat_of_int (int_of_string k), v = "1") | _ -> failwith "ret") (split ',' s) in
               let str_ret r = if r = [] then "-" else String.concat "," (List.map (fun (v, b) -> Printf.sprintf "%d:%d" (int_of_nat v) (if b then 1 else 0)) r) in
               let tape = if a 9 = "-" then [] else List.map (fun l -> if l = "~" then [] else states_of_string l) (String.split_on_char '/' (a 9)) in
               let cfg = { c_threshold = nat_of_int (int_of_string (a 5)); c_limit = nat_of_int (int_of_string (a 6)); c_budget = nat_of_int (int_of_string (a 7)) } in
               let (res, log) = compute_candidates (nat_of_int 1000) !net (space_of_string (a 1)) (spaces_of_string (a 2)) (nats_of_string (a 3))
                                  (parse_ret (a 4)) cfg (a 8 = "1") false tape { s_walks = []; s_moves = [] } in
               let r = (match res with CRaised -> "raised" | CTapeEnd -> "tapeend" | COk l -> "ok:" ^ str_states (List.sort compare l)) in
               r ^ " log=" ^ (if log = [] then "-" else String.concat "|" (List.map (fun k ->
                   str_ret k.k_ret ^ "@" ^ (match k.k_limit with None -> "-" | Some l -> string_of_int (int_of_nat l))) log))
           | "attractors" ->
               let l = get_attrs () in
               if l = [] then "-" else String.concat " " (List.map str_states l)
           | "chk" ->
               let sp = space_of_string (a 2) in
               let e = node_attractors_of (get_attrs ()) sp (spaces_of_string (a 3)) in
               str_verdict (match a 1 with
                 | "cover" -> check_cover sp e (states_of_string (a 4))
                 | "seeds" -> check_seeds sp e (states_of_string (a 4))
                 | "sound" -> check_seeds_sound sp e (states_of_string (a 4))
                 | "sets" -> check_sets e (states_of_string (a 4)) (sets_of_string (a 5))
                 | x -> failwith ("unknown chk " ^ x))
           | "nodeattr" ->
               let l = node_attractors_of (get_attrs ()) (space_of_string (a 1)) (spaces_of_string (a 2)) in
               if l = [] then "-" else String.concat " " (List.map str_states l)
           | "redfix" -> str_states (reduced_fixed_b !net (space_of_string (a 1)) (space_of_string (a 2)) (spaces_of_string (a 3)))
           | "reach" -> str_states (reach_list !net (state_of_string (a 1)))
           | "sanitize" -> (match sanitize (names_of_string (a 1)) with None -> "none" | Some l -> str_names l)
           | "checkonly" -> if check_only_ok (names_of_string (a 1)) then "true" else "false"
           | "place" -> string_of_name (place_name (name_of_string (a 1)) (a 2 = "1"))
           | "unplace" -> (match place_to_variable (name_of_string (a 1)) with None -> "none" | Some (v, b) -> string_of_name v ^ " " ^ (if b then "1" else "0"))
           | "msubspace" -> if subspace (space_of_string (a 1)) (space_of_string (a 2)) then "1" else "0"
           | "mintersect" -> (match intersect (space_of_string (a 1)) (space_of_string (a 2)) with None -> "none" | Some z -> string_of_space z)
           | "mkey" -> string_of_int (int_of_n (space_key (space_of_string (a 1))))
           | "pyfun" ->
               (* the functions generated from the Python sources by tools/py2coq.py (theories/PySrc.v); dicts as k:v,k:v in insertion order *)
               let dict_of s = if s = "-" then [] else List.map (fun kv -> match String.split_on_char ':' kv with
                                   | [k; v] -> (nat_of_int (int_of_string k), v = "1") | _ -> failwith "dict") (String.split_on_char ',' s) in
               let str_dict d = if d = [] then "-" else String.concat "," (List.map (fun (k, v) -> Printf.sprintf "%d:%d" (int_of_nat k) (if v then 1 else 0)) d) in
               (match a 1 with
                | "is_subspace" -> (match py_is_subspace (dict_of (a 2)) (dict_of (a 3)) with None -> "raise" | Some b -> if b then "1" else "0")
                | "intersect" -> (match py_intersect (dict_of (a 2)) (dict_of (a 3)) with None -> "raise" | Some None -> "none" | Some (Some d) -> str_dict d)
                | "space_unique_key" -> (match py_space_unique_key (dict_of (a 2)) (nat_of_int (int_of_string (a 3))) with None -> "raise" | Some k -> string_of_int (int_of_n k))
                | "variable_to_place" -> (match py_variable_to_place (name_of_string (a 2)) (a 3 = "1") with None -> "raise" | Some s -> string_of_name s)
                | "place_to_variable" -> (match py_place_to_variable (name_of_string (a 2)) with None -> "raise" | Some (v, b) -> string_of_name v ^ " " ^ (if b then "1" else "0"))
                | x -> failwith ("unknown pyfun " ^ x))
           | "filter" ->
               (* filter SEEDSONLY MOTIFS CANDS : Filter.compute_attractors_filter; sets printed as sorted state lists *)
               let (seeds, sets) = compute_attractors_filter !net (a 1 = "1") (spaces_of_string (a 2)) (states_of_string (a 3)) in
               "seeds=" ^ str_states seeds ^ " sets=" ^
               (match sets with None -> "none"
                              | Some l -> if l = [] then "-" else String.concat "/" (List.map (fun st -> str_states (List.sort compare (List.map string_of_state st) |> List.map state_of_string)) l))
           | "skiprule" ->
               (* seeds of every node in id order under the ideal engine (SkipRule.query_order): per-node seed counts, lost attractors *)
               let attrs = get_attrs () in
               let n = int_of_nat (size !cur) in
               let ids = List.init n nat_of_int in
               let c = query_order attrs !cur (List.init n (fun _ -> None)) ids in
               Printf.sprintf "counts=%s lost=%d dup=%d"
                 (String.concat "," (List.map (function None -> "-" | Some l -> string_of_int (List.length l)) c))
                 (List.length (lost attrs c))
                 (List.length (List.filter (fun a -> int_of_nat (times_represented c a) > 1) attrs))
           | "init" -> cur := init !net; dump !cur
           | "dump" -> dump !cur
           | "depth" -> string_of_int (int_of_nat (depth !cur))
           | "minimal" -> str_nats (minimal_ids !cur)
           | "find" -> (match find_node !cur (space_of_string (a 1)) with None -> "none" | Some i -> string_of_int (int_of_nat i))
           | "aseeds" ->
               (* aseeds SIZE MINTAPE NFVSTAPE *)
               let nt = if a 3 = "-" then [] else List.map (fun l -> if l = "~" then [] else nats_of_string l) (String.split_on_char '/' (a 3)) in
               (* contract of the NFVS tape (ASeedsFacts.nfvs_log_ok), decided by the extracted LogChecks.nfvs_entry_ok_b *)
               let lg = expand_aseeds_log !fuel !net !cfg !cur (opt_nat (a 1)) (spaces_of_string (a 2)) nt in
               let bad = List.filter (fun e -> not (nfvs_entry_ok_b !net e)) lg in
               let (d1, r) = expand_aseeds !fuel !net !cfg !cur (opt_nat (a 1)) (spaces_of_string (a 2)) nt in
               cur := d1; Printf.sprintf "result=%s;tape=%d/%d %s" (str_result r) (List.length lg) (List.length bad) (dump d1)
           | "scc" ->
               (* scc MAA TAPE : tape chars 1 = no candidates, 0 = candidates, r = the query raised *)
               let tape = if a 2 = "-" then [] else List.init (String.length (a 2)) (fun i -> match (a 2).[i] with '1' -> Some true | '0' -> Some false | _ -> None) in
               let (d1, r) = expand_scc !fuel !net !cfg !cur (a 1 = "1") tape in
               cur := d1; "result=" ^ str_result r ^ " " ^ dump d1
           | "sccs" -> (* source SCCs of a space *)
               let l = source_sccs !net (space_of_string (a 1)) in
               if l = [] then "-" else String.concat ";" (List.map str_nats l)
           | "block" ->
               (* block MAA OPTSRC SIZE TAPE(bits) *)
               let tape = if a 4 = "-" then [] else List.init (String.length (a 4)) (fun i -> (a 4).[i] = '1') in
               (* contract of the is_clean tape (BlockComplete.clean_log_ok), decided by LogChecks.clean_entry_ok_b;
                  only positive answers carry an obligation *)
               let (lg, _) = expand_block_log !fuel !net !cfg !cur (a 1 = "1") (a 2 = "1") (opt_nat (a 3)) tape in
               let pos = List.filter (fun (_, b) -> b) lg in
               let bad = List.filter (fun e -> not (clean_entry_ok_b !net e)) pos in
               let (d1, r) = expand_block !fuel !net !cfg !cur (a 1 = "1") (a 2 = "1") (opt_nat (a 3)) tape in
               cur := d1; Printf.sprintf "result=%s;tape=%d/%d %s" (str_result r) (List.length pos) (List.length bad) (dump d1)
           | "op" ->
               let o = match a 1 with
                 | "expand" -> OExpandNode (nat_of_int (int_of_string (a 2)))
                 | "bfs" -> OBfs (opt_nat (a 2), opt_nat (a 3), opt_nat (a 4))
                 | "dfs" -> ODfs (opt_nat (a 2), opt_nat (a 3), opt_nat (a 4))
                 | "min" -> OMin (opt_nat (a 2), opt_nat (a 3), a 4 = "1", spaces_of_string (a 5))
                 | "target" -> OTarget (space_of_string (a 2), opt_nat (a 3))
                 | "skipmin" -> OSkipToMin (nat_of_int (int_of_string (a 2)), spaces_of_string (a 3))
                 | "skiprem" -> OSkipRemaining (spaces_of_string (a 2))
                 | "cands" -> OCands (nat_of_int (int_of_string (a 2)), outcome_of_string (a 3))
                 | "seeds" -> OSeeds (nat_of_int (int_of_string (a 2)), a 3 = "1", outcome_of_string (a 4), outcome_of_string (a 5))
                 | "sets" -> OSets (nat_of_int (int_of_string (a 2)), outcome_of_string (a 3), outcome_of_string (a 4))
                 | "reclaim" -> OReclaim
                 | "pickle" -> OPickle
                 | s -> failwith ("unknown op " ^ s) in
               let (d1, r) = step !fuel !net !cfg !cur o in
               cur := d1; "result=" ^ str_result r ^ " " ^ dump d1
           | s -> "error unknown command " ^ s in
         print_string out; print_newline ()
       end
     done
   with End_of_file -> ())
