"""C09 (trap-space solver), C10 (Petri net encoding / reductions), C11 (percolation)."""
from __future__ import annotations
from props import *
import props as P
from props_struct import _sizes
import re
import biobalm.trappist_core as TC
import biobalm.petri_net_translation as PNT
import biobalm.space_utils as SU
import biobalm.drivers as DR
from biodivine_aeon import AsynchronousGraph

# ---------------------------------------------------------------- helpers
def pn_extract(pn, nm):
    """(vars as indices, transitions as (var, dir, cond-string)) of a real networkx Petri net"""
    idx = {v: i for i, v in enumerate(nm)}
    vars_ = sorted(idx[PNT.place_to_variable(p)[0]] for p, k in pn.nodes(data="kind") if k == "place" and p.startswith("b0_"))
    ts = []
    for t, data in pn.nodes(data=True):
        if data.get("kind") != "transition":
            continue
        x = data["change"]; up = data["direction"] == "up"
        pre = set(pn.predecessors(t)); post = set(pn.successors(t))
        own_pre = PNT.variable_to_place(x, not up); own_post = PNT.variable_to_place(x, up)
        ok = own_pre in pre and own_post in post and (pre - {own_pre}) == (post - {own_post})
        cond = ["*"] * len(nm)
        for p in pre - {own_pre}:
            v, pos = PNT.place_to_variable(p)
            if cond[idx[v]] != "*":
                ok = False
            cond[idx[v]] = "1" if pos else "0"
        ts.append((idx[x], "up" if up else "down", "".join(cond), ok))
    return vars_, ts

def pn_cmds(vars_, ts):
    return [f"pnload {','.join(map(str, vars_)) or '-'} {len(ts)}"] + [f"{v} {d} {c}" for v, d, c, _ in ts]

def canon_pn(vars_, ts):
    return "vars=" + (",".join(map(str, vars_)) or "-") + " trans=" + ("|".join(sorted(f"{v} {d} {c}" for v, d, c, _ in ts)) or "-")

ATOM = re.compile(r"b([01])_([A-Za-z0-9_]+)")
def canon_rule(text, idx):
    """normalise one ASP statement the way ocaml/driver.ml prints model rules"""
    t = text.strip()
    assert t.endswith("."), t
    t = t[:-1].strip()
    def atoms(s):
        out = []
        for m in ATOM.finditer(s):
            out.append(f"b{m.group(1)}_{idx[m.group(2)]}")
        return sorted(out)
    if t == "#false":
        return "#false."
    if t.startswith("{"):
        return "{" + atoms(t)[0] + "}."
    if t.startswith(":-"):
        return ":- " + ", ".join(atoms(t[2:])) + "."
    if ":-" in t:
        h, b = t.split(":-")
        return "; ".join(atoms(h)) + " :- " + ", ".join(atoms(b)) + "."
    a = atoms(t)
    if len(a) == 1 and ";" not in t:
        return a[0] + "."
    return "; ".join(a) + "."

class CaptureControl:
    """wraps clingo.Control inside biobalm.trappist_core to record the program text"""
    programs = []
    def __init__(self, *a, **kw):
        self._c = CaptureControl._orig(*a, **kw)
        self.text = []
        CaptureControl.programs.append(self)
    def add(self, *a):
        self.text.append(a[-1])
        return self._c.add(*a)
    def __getattr__(self, k):
        return getattr(self._c, k)
CaptureControl._orig = TC.Control

def rand_space(rng, n, p_fix=0.35):
    return "".join(rng.choice("01") if rng.random() < p_fix else "*" for _ in range(n))

def subspace_s(x, y):
    return all(b == "*" or a == b for a, b in zip(x, y))

# ---------------------------------------------------------------- C11
def _c11_worker(case):
    try:
        rng = random.Random(case["seed"])
        sd = make_sd(case["rules"]); nm = var_names(sd); n = len(nm); tabs = tables_of(sd)
        g = sd.symbolic
        m = Model(n, tabs)
        real = []
        spaces = [rand_space(rng, n, rng.choice([0.2, 0.4, 0.7])) for _ in range(case["k"])]
        # include trap spaces (node spaces of the diagram) and the empty space
        sd.expand_bfs(size_limit=12)
        spaces += [sp2s(sd.node_data(i)["space"], nm) for i in range(min(len(sd), 4))] + ["*" * n]
        for sp in spaces:
            d = s2sp(sp, nm)
            real.append(("percolate", sp, sp2s(SU.percolate_space(g, d), nm))); m.add(f"percolate {sp}")
            real.append(("strict", sp, sp2s(SU.percolate_space_strict(g, d), nm))); m.add(f"strict {sp}")
            cf = sorted(nm.index(v) for v in SU.percolation_conflicts(g, d, strict_percolation=False))
            real.append(("conflicts", sp, ",".join(map(str, cf)) or "-")); m.add(f"conflicts {sp}")
            dr = sorted((nm.index(v), b) for v, b in DR.find_single_drivers(d, g))
            real.append(("drivers", sp, " ".join(f"{v},{b}" for v, b in dr) or "-")); m.add(f"drivers {sp}")
        # the same driver queries through a caller-supplied LDOI table, shared between the calls (the documented use);
        # the table is read again AFTER them: a query must not change it (seeded change w6_C11 wrote the fixed node into
        # every LDOI in place)
        ld = DR.find_single_node_LDOIs(g)
        for sp in spaces[:4]:
            d = s2sp(sp, nm)
            dr = sorted((nm.index(v), b) for v, b in DR.find_single_drivers(d, g, ld))
            real.append(("drivers-with-table", sp, " ".join(f"{v},{b}" for v, b in dr) or "-")); m.add(f"drivers {sp}")
        real.append(("ldois", "", " ".join(f"{nm.index(v)},{b},{sp2s(x, nm)}" for (v, b), x in sorted(ld.items(), key=lambda kv: (nm.index(kv[0][0]), kv[0][1]))) or "-"))
        m.add("ldois")
        # order independence of the strict variant (the code iterates over a Python set)
        order = list(range(n)); rng.shuffle(order)
        for sp in spaces[:3]:
            real.append(("strictord", sp, real[[r[0:2] for r in real].index(("strict", sp))][2])); m.add(f"strictord {','.join(map(str, order))} {sp}")
        out = m.run()
        diffs = [{"query": q, "arg": a, "real": r, "model": o} for (q, a, r), o in zip(real, out) if r != o]
        return {"case": case, "diffs": diffs, "queries": len(real), "n": n, "error": None}
    except Exception:
        return {"case": case, "error": traceback.format_exc()}

@register("C11")
def run_C11(tier, seed):
    rng = random.Random(seed)
    cases = [{"rules": gen_network(rng, 2, _sizes(tier, 7, 8)), "seed": rng.randrange(10**9), "k": _sizes(tier, 8, 20)} for _ in range(_sizes(tier, 250, 4000))]
    ws = pmap(_c11_worker, cases)
    viol = []
    nq = 0
    for w in ws:
        if w.get("error"):
            viol.append(error_violation("C11", w)); continue
        nq += w["queries"]
        for d in w["diffs"][:1]:
            viol.append({"property": "C11", "signature": "C11:" + d["query"], "what": f"{d['query']}({d['arg']}) = {d['real']} but the least fixed point of value propagation (model) gives {d['model']}", "case": w["case"], "failing_input": True})
    good = [w for w in ws if not w.get("error")]
    return {"evaluations": nq, "distinct_nontrivial": len({case_hash(w["case"]) for w in good if w["n"] >= 3}),
            "rule": "random/modular networks x random subspaces (consistent, conflicting, node trap spaces, empty space): percolate_space, percolate_space_strict (also under a shuffled iteration order in the model), percolation_conflicts(strict=False), find_single_node_LDOIs, find_single_drivers (also through a shared caller-supplied LDOI table, which is re-read after the queries) compared with the extracted twins; evaluations = number of queries; distinct non-trivial = distinct networks with >= 3 variables",
            "samples": [{"rules": w["case"]["rules"], "queries": w["queries"]} for w in good[:3]], "violations": viol, "extra": {"networks": len(cases)}}

# ---------------------------------------------------------------- C10
def _c10_worker(case):
    try:
        rng = random.Random(case["seed"])
        sd = make_sd(case["rules"]); nm = var_names(sd); n = len(nm); tabs = tables_of(sd)
        msgs = []
        vars_, ts = pn_extract(sd.petri_net, nm)
        if not all(t[3] for t in ts):
            msgs.append("a transition of the global net is not of the (own place moves, read arcs both ways) form")
        return _c10_body(case, rng, sd, nm, n, tabs, vars_, ts, msgs)
    except Exception:
        return {"case": case, "error": traceback.format_exc()}

def _c10_body(case, rng, sd, nm, n, tabs, vars_, ts, msgs):
    m = Model(n, tabs)
    def load(vars2, ts2):
        cmds = pn_cmds(vars2, ts2)
        m.cmds.append("\n".join(cmds))       # one output line ("ok")
        return len(m.cmds) - 1
    load(vars_, ts)
    i_full = m.add("pnfaithful " + "*" * n)
    i_src = m.add("pnsources")
    real_src = sorted(nm.index(v) for v in PNT.extract_source_variables(sd.petri_net))
    checks = []
    sd.expand_bfs(size_limit=10)
    spaces = [rand_space(rng, n, rng.choice([0.2, 0.5])) for _ in range(case["k"])] + [sp2s(sd.node_data(i)["space"], nm) for i in range(min(len(sd), 5))]
    for sp in spaces:
        d = s2sp(sp, nm)
        load(vars_, ts)
        i_r = m.add(f"pnrestrict {sp}")
        rv, rts = pn_extract(PNT.restrict_petrinet_to_subspace(sd.petri_net, d), nm)
        checks.append(("restrict", sp, i_r, canon_pn(rv, rts)))
        load(rv, rts)
        checks.append(("restricted-faithful", sp, m.add(f"pnfaithful {sp}"), "1"))
    # composition through the parent's net (node_percolated_petri_net with parent)
    for i in range(1, min(len(sd), 4)):
        parent = sd.node_data(i)["parent_node"]
        if parent is None:
            continue
        sd.node_percolated_petri_net(parent, compute=True)
        pn_i = sd.node_percolated_petri_net(i, compute=True)
        rv, rts = pn_extract(pn_i, nm)
        load(vars_, ts)
        checks.append(("restrict-via-parent", sp2s(sd.node_data(i)["space"], nm), m.add(f"pnrestrict {sp2s(sd.node_data(i)['space'], nm)}"), canon_pn(rv, rts)))
    # ... and through ANOTHER parent than the recorded one (the documented `parent_id` argument; diamonds of the diagram), whose net is cached first
    # (seeded change w12_C10)
    sd2 = make_sd(case["rules"]); sd2.expand_bfs(size_limit=14)
    done_alt = 0
    for i in range(1, len(sd2)):
        if done_alt >= 3:
            break
        rec = sd2.node_data(i)["parent_node"]
        others = [p_ for p_ in sorted(sd2.dag.predecessors(i)) if p_ != rec]
        if not others or sd2.node_data(i)["percolated_petri_net"] is not None:
            continue
        sd2.node_percolated_petri_net(others[0], compute=True)
        pn_i = sd2.node_percolated_petri_net(i, compute=True, parent_id=others[0])
        rv, rts = pn_extract(pn_i, nm)
        load(vars_, ts)
        spi = sp2s(sd2.node_data(i)["space"], nm)
        checks.append(("restrict-via-other-parent", spi, m.add(f"pnrestrict {spi}"), canon_pn(rv, rts)))
        done_alt += 1
    out = m.run()
    if out[i_full] != "1":
        msgs.append("global Petri net does not enable exactly the transitions of the update functions")
    if out[i_src] != (",".join(map(str, real_src)) or "-"):
        msgs.append(f"extract_source_variables = {real_src}, variables without transitions (model) = {out[i_src]}")
    for kind, sp, i, want in checks:
        if out[i] != want:
            msgs.append(f"{kind}({sp}): code {want if kind != 'restricted-faithful' else 'net'} vs model {out[i]}")
    # percolate_network: dynamics of the free variables coincide on the percolated space
    trap_spaces = [sp2s(sd.node_data(i)["space"], nm) for i in range(min(len(sd), 6))]
    for sp in trap_spaces:      # the property quantifies over trap spaces here
        d = s2sp(sp, nm)
        for rc in (False, True):
            try:
                new_bn = SU.percolate_network(sd.network, d, sd.symbolic, remove_constants=rc)
            except Exception as e:
                msgs.append(f"percolate_network({sp}, remove_constants={rc}) raised {type(e).__name__}: {e}"); continue
            perc = SU.percolate_space(sd.symbolic, d)
            g2 = AsynchronousGraph(new_bn)
            names2 = list(new_bn.variable_names())
            free = [v for v in nm if v not in perc]
            if rc and sorted(names2) != sorted(free):
                msgs.append(f"percolate_network({sp}, remove_constants=True) keeps variables {names2}, free variables are {free}")
                continue
            if not rc:
                # constants kept: the encoding is still over exactly the variables left free -- every variable fixed by the
                # percolated trap space must be a CONSTANT of the new network with that value (a fixed free input that stays a
                # free input makes the other input values reappear: seeded change w8_C18)
                bad = None
                for v in perc:
                    if v not in names2:
                        bad = f"dropped fixed variable {v}"; break
                    if new_bn.get_update_function(v) is None:
                        bad = f"leaves the fixed input {v} a free input"; break
                    fb = g2.mk_update_function(v)
                    if not ((fb.is_true() and perc[v] == 1) or (fb.is_false() and perc[v] == 0)):
                        bad = f"update function of the fixed variable {v} is not the constant {perc[v]}"; break
                if bad:
                    msgs.append(f"percolate_network({sp}, remove_constants=False) {bad}"); continue
            for v in free:
                if v not in names2:
                    msgs.append(f"percolate_network({sp}) dropped free variable {v}"); break
                f2 = g2.mk_update_function(v) if new_bn.get_update_function(v) is not None else None
                f1 = sd.symbolic.mk_update_function(v) if sd.network.get_update_function(v) is not None else None
                for vals in itertools.product([0, 1], repeat=len(free)):
                    st = dict(perc); st.update(dict(zip(free, vals)))
                    a = st[v] if f1 is None else function_eval(f1, st)
                    st2 = {k: x for k, x in st.items() if k in names2}
                    b = st2[v] if f2 is None else function_eval(f2, st2)
                    if a != b:
                        msgs.append(f"percolate_network({sp}, remove_constants={rc}): update of {v} differs in state {st}"); break
                else:
                    continue
                break
    return {"case": case, "msgs": msgs, "n": n, "checks": len(checks) + 2, "error": None}

@register("C10")
def run_C10(tier, seed):
    rng = random.Random(seed)
    cases = [{"rules": gen_network(rng, 2, _sizes(tier, 6, 8)), "seed": rng.randrange(10**9), "k": _sizes(tier, 4, 10)} for _ in range(_sizes(tier, 200, 3000))]
    # a quarter of the networks with inputs get them as free inputs (variables without an update rule)
    for c in cases:
        if rng.random() < 0.5:
            c["rules"] = free_inputs_variant(rng, c["rules"])
    for k in range(_sizes(tier, 40, 400)):
        n = rng.randint(3, 6)
        base = random_network(rng, n, p_self=0.0)
        lines = base.splitlines()
        for j in rng.sample(range(n), rng.randint(1, 2)):
            v = lines[j].split(",")[0]
            lines[j] = f"{v}, {v}"
        cases.append({"rules": free_inputs_variant(rng, "\n".join(lines)), "seed": rng.randrange(10**9), "k": 3})
    # in ADDITION (separate random stream): networks whose variable names are prefixes of one another (v, v_k, v_k_k, ...): places and transitions
    # must be told apart by the exact name (seeded change w11_C17)
    rngp = random.Random(seed ^ 0xC10)
    for _ in range(_sizes(tier, 40, 400)):
        rules = gen_network(rngp, 3, 6)
        names = [l.split(",")[0].strip() for l in rules.splitlines()]
        new = ["v" + "_k" * i for i in range(len(names))]
        rngp.shuffle(new)
        mp = dict(zip(names, new))
        rules = "\n".join(re.sub(r"[A-Za-z_][A-Za-z0-9_]*", lambda m_: mp.get(m_.group(0), m_.group(0)), l) for l in rules.splitlines())
        cases.append({"rules": rules, "seed": rngp.randrange(10**9), "k": 4})
    ws = pmap(_c10_worker, cases)
    viol = []
    nchecks = 0
    for w in ws:
        if w.get("error"):
            viol.append(error_violation("C10", w)); continue
        nchecks += w["checks"]
        for msg in w["msgs"][:1]:
            viol.append({"property": "C10", "signature": "C10:" + msg.split("(")[0].split(":")[0][:50], "what": msg, "case": w["case"], "failing_input": True})
    good = [w for w in ws if not w.get("error")]
    extra = {"networks": len(cases)}
    if tier == "thorough":
        extra["bbm"] = bbm_symbolic_pn_check(viol)
    return {"evaluations": nchecks, "distinct_nontrivial": len({case_hash(w["case"]) for w in good if w["n"] >= 3}),
            "rule": "random/modular networks (plus networks whose variable names are prefixes of one another: v, v_k, v_k_k, ...): the real global Petri net must pass the verified exact faithfulness test (pn_faithful_b, PetriNetFacts.pn_faithful_b_spec); restrictions to random subspaces and node spaces must equal the model's restrict_pn and be faithful on the subspace; restriction through the parent's net must equal direct restriction; percolate_network (with/without constant removal) must keep exactly the free variables with unchanged dynamics on the percolated space; thorough: BDD equivalence of every update function with its transitions for all repository models",
            "samples": [{"rules": w["case"]["rules"]} for w in good[:3]], "violations": viol, "extra": extra}

def bbm_symbolic_pn_check(viol):
    """for every model in /repo/models: OR of the implicants of x's up (down) transitions == f_x & !x (resp. !f_x & x), by BDDs"""
    import glob
    from biodivine_aeon import BooleanNetwork, SymbolicContext
    files = sorted(glob.glob("/repo/models/bbm-bnet-inputs-true/*.bnet"))
    res = pmap(_bbm_worker, files)
    bad = [r for r in res if r[1]]
    for f, msg in bad[:3]:
        viol.append({"property": "C10", "signature": "C10:bbm-symbolic", "what": f"{f}: {msg}", "case": {"file": f}, "failing_input": True})
    return {"models": len(files), "mismatches": len(bad), "max_vars": max(r[2] for r in res) if res else 0}

def _bbm_worker(f):
    try:
        from biodivine_aeon import BooleanNetwork, SymbolicContext
        bn = BooleanNetwork.from_file(f)
        bn = PNT.sanitize_network_names(bn)
        bn = bn.infer_valid_graph()
        ctx = SymbolicContext(bn)
        pn = PNT.network_to_petrinet(bn, ctx)
        vs = ctx.bdd_variable_set()
        for var in bn.variables():
            name = bn.get_variable_name(var)
            uf = bn.get_update_function(var)
            if uf is None:
                continue
            fb = ctx.mk_update_function(uf); xb = ctx.mk_network_variable(var)
            for up in (True, False):
                want = fb.l_and(xb.l_not()) if up else fb.l_not().l_and(xb)
                clauses = []
                for t, data in pn.nodes(data=True):
                    if data.get("kind") == "transition" and data["change"] == name and (data["direction"] == "up") == up:
                        cl = {}
                        for p in pn.predecessors(t):
                            v, pos = PNT.place_to_variable(p)
                            cl[v] = pos
                        clauses.append(cl)
                got = vs.mk_dnf(clauses) if clauses else vs.mk_false()
                if not got.l_iff(want).is_true():
                    return (f, f"variable {name} {'up' if up else 'down'}: transitions do not encode the update function", bn.variable_count())
        return (f, None, bn.variable_count())
    except Exception as e:
        return (f, f"harness error {type(e).__name__}: {e}", 0)

# ---------------------------------------------------------------- C09
def _eval_tab(tabs, i, s):
    return tabs[i][int(s, 2)] == "1"

def _rev_traps(tabs, n, ensure):
    """brute force: subspaces of `ensure` that no asynchronous transition enters (validation only)"""
    states = ["".join(p) for p in itertools.product("01", repeat=n)]
    preds = {t: [] for t in states}
    for s in states:
        for i in range(n):
            v = "1" if _eval_tab(tabs, i, s) else "0"
            if v != s[i]:
                preds[s[:i] + v + s[i + 1:]].append(s)
    out = []
    for sp in itertools.product("01*", repeat=n):
        sp = "".join(sp)
        if not subspace_s(sp, ensure):
            continue
        inside = lambda s: all(c == "*" or c == x for c, x in zip(sp, s))
        if all(inside(s) for t in states if inside(t) for s in preds[t]):
            out.append(sp)
    return out

def _extremal(cands, kind):
    if kind == "min":
        return sorted(t for t in cands if not any(u != t and subspace_s(u, t) for u in cands))
    return sorted(t for t in cands if not any(u != t and subspace_s(t, u) for u in cands))

def _c09_worker(case):
    try:
        rng = random.Random(case["seed"])
        sd = make_sd(case["rules"]); nm = var_names(sd); n = len(nm); tabs = tables_of(sd)
        idx = {v: i for i, v in enumerate(nm)}
        vars_, ts = pn_extract(sd.petri_net, nm)
        m = Model(n, tabs)
        m.cmds.append("\n".join(pn_cmds(vars_, ts)))
        import copy as _copy
        pn_pristine = _copy.deepcopy(sd.petri_net)      # a net that no solver call has seen
        checks = []     # (kind, description, model cmd index, real value, post-processing)
        msgs = []
        TC.Control = CaptureControl
        try:
            for _ in range(case["k"]):
                pb = rng.choice(["min", "max", "fix", "min", "max"])
                rev = rng.random() < 0.25
                ensure = rand_space(rng, n, rng.choice([0.0, 0.2, 0.4]))
                if pb == "max" and "*" not in ensure:
                    ensure = "*" + ensure[1:]
                avoid = [rand_space(rng, n, rng.choice([0.3, 0.6])) for _ in range(rng.choice([0, 0, 1, 2]))]
                srcmode = rng.choice(["auto", "none", "some"])
                limit = rng.choice([None, None, None, 0, 1, 2])
                srcs = None if srcmode == "auto" else ([] if srcmode == "none" else [v for v in nm if rng.random() < 0.3])
                CaptureControl.programs.clear()
                res = TC.trappist(sd.petri_net, problem=pb, reverse_time=rev, solution_limit=limit,
                                  ensure_subspace=s2sp(ensure, nm), avoid_subspaces=[s2sp(a, nm) for a in avoid],
                                  optimize_source_variables=srcs)
                desc = f"trappist(problem={pb}, reverse_time={rev}, ensure={ensure}, avoid={avoid}, sources={srcmode if srcs is None else [idx[v] for v in srcs]}, limit={limit})"
                eff_srcs = sorted(idx[v] for v in (PNT.extract_source_variables(sd.petri_net) if srcs is None else srcs))
                if limit != 0:
                    text = sorted(canon_rule(t, idx) for t in CaptureControl.programs[-1].text)
                    checks.append(("program", desc, m.add(f"trapprog {pb} {int(rev)} {ensure} {';'.join(avoid) or '-'} {','.join(map(str, eff_srcs)) or '-'}"), "|".join(text), None))
                got = [sp2s(x, nm) for x in res]
                checks.append(("answers", desc, m.add(f"traps {ensure}") if not rev else None, got, (pb, rev, ensure, avoid, eff_srcs, limit)))
            # reduced STG fixed points
            for _ in range(case["k"] // 2 + 1):
                R = rand_space(rng, n, 0.4); ensure = rand_space(rng, n, rng.choice([0.0, 0.3]))
                avoid = [rand_space(rng, n, rng.choice([0.0, 0.4, 0.7])) for _ in range(rng.choice([0, 1, 2]))]
                limit = rng.choice([None, None, 0, 1, 3])
                CaptureControl.programs.clear()
                res = TC.compute_fixed_point_reduced_STG(sd.petri_net, s2sp(R, nm), ensure_subspace=s2sp(ensure, nm),
                                                         avoid_subspaces=[s2sp(a, nm) for a in avoid], solution_limit=limit)
                desc = f"compute_fixed_point_reduced_STG(retained={R}, ensure={ensure}, avoid={avoid}, limit={limit})"
                if limit != 0:
                    text = sorted(canon_rule(t, idx) for t in CaptureControl.programs[-1].text)
                    checks.append(("program", desc, m.add(f"deadprog {R} {ensure} {';'.join(avoid) or '-'}"), "|".join(text), None))
                checks.append(("redfix", desc, m.add(f"redfix {R} {ensure} {';'.join(avoid) or '-'}"), [sp2s(x, nm) for x in res], limit))
            # one explicit source list OBJECT handed to several consecutive calls (a caller keeping its list): every call is judged against
            # the contents the caller designated.  Separate generator, so the streams above are unchanged.
            rng3 = random.Random(case["seed"] ^ 0x9C09)
            designated = [v for v in nm if rng3.random() < 0.5]
            shared = list(designated)
            for j in range(4):
                pb = "max" if j == 3 else rng3.choice(["min", "max", "fix", "max"])
                ensure = rand_space(rng3, n, 0.0 if j == 3 else rng3.choice([0.2, 0.5]))
                if pb == "max" and "*" not in ensure:
                    ensure = "*" + ensure[1:]
                CaptureControl.programs.clear()
                res = TC.trappist(sd.petri_net, problem=pb, ensure_subspace=s2sp(ensure, nm), optimize_source_variables=shared)
                desc = f"call {j + 1} of 4 re-using one source list object {[idx[v] for v in designated]}: trappist(problem={pb}, ensure={ensure})"
                eff_srcs = sorted(idx[v] for v in designated)
                text = sorted(canon_rule(t, idx) for t in CaptureControl.programs[-1].text)
                checks.append(("program", desc, m.add(f"trapprog {pb} 0 {ensure} - {','.join(map(str, eff_srcs)) or '-'}"), "|".join(text), None))
                checks.append(("answers", desc, m.add(f"traps {ensure}"), [sp2s(x, nm) for x in res], (pb, False, ensure, [], eff_srcs, None)))
            # the answers for a net must not depend on what was asked of the net it was derived from: restrict (a) a pristine copy and (b) the net
            # that has answered queries with the default source list, and ask both for the maximal trap spaces (seeded change w12_C09)
            rng4 = random.Random(case["seed"] ^ 0x9C12)
            TC.trappist(sd.petri_net, problem="max")
            for _ in range(2):
                spr = rand_space(rng4, n, 0.35)
                if "*" not in spr or spr == "*" * n:
                    continue
                ra = TC.trappist(PNT.restrict_petrinet_to_subspace(pn_pristine, s2sp(spr, nm)), problem="max")
                rb = TC.trappist(PNT.restrict_petrinet_to_subspace(sd.petri_net, s2sp(spr, nm)), problem="max")
                fa, fb = sorted(sorted(x.items()) for x in ra), sorted(sorted(x.items()) for x in rb)
                if fa != fb:
                    msgs.append(("answers", f"trappist(restrict_petrinet_to_subspace(net, {spr}), problem=max) depends on the history of `net`: from a pristine copy {fa[:4]}, from the net that answered earlier queries {fb[:4]}"))
        finally:
            TC.Control = CaptureControl._orig
        out = m.run()
        for kind, desc, ci, real, post in checks:
            if kind == "program":
                if out[ci] != real:
                    a, b = set(out[ci].split("|")), set(real.split("|"))
                    msgs.append(("program", f"{desc}: emitted program differs from the model's; only in code: {sorted(b - a)[:4]}; only in model: {sorted(a - b)[:4]}"))
            elif kind == "redfix":
                want = sorted(parse_states(out[ci])); got = real; limit = post
                exp_len = len(want) if limit is None else min(limit, len(want))
                if len(got) != len(set(got)) or not set(got) <= set(want) or len(got) != exp_len:
                    msgs.append(("redfix", f"{desc}: returned {sorted(got)}, fixed points of the reduced STG are {want}"))
            else:
                pb, rev, ensure, avoid, eff_srcs, limit = post
                traps = _rev_traps(tabs, n, ensure) if rev else parse_spaces(out[ci])
                traps = [t for t in traps if not any(subspace_s(t, a) for a in avoid)]
                if pb == "fix":
                    want = sorted(t for t in traps if "*" not in t)
                elif pb == "min":
                    want = _extremal(traps, "min")
                else:
                    c = [t for t in traps if t != ensure and all(t[v] != "*" for v in eff_srcs if ensure[v] == "*")]
                    want = _extremal(c, "max")
                got = real
                exp_len = len(want) if limit is None else min(limit, len(want))
                if len(got) != len(set(got)) or not set(got) <= set(want) or len(got) != exp_len:
                    msgs.append(("answers", f"{desc}: returned {sorted(got)}, expected {'a prefix of ' if limit is not None else ''}{want}"))
        return {"case": case, "msgs": msgs, "n": n, "checks": len(checks), "error": None}
    except Exception:
        TC.Control = CaptureControl._orig
        return {"case": case, "error": traceback.format_exc()}

@register("C09")
def run_C09(tier, seed):
    rng = random.Random(seed)
    cases = [{"rules": gen_network(rng, 2, _sizes(tier, 6, 7)), "seed": rng.randrange(10**9), "k": _sizes(tier, 8, 16)} for _ in range(_sizes(tier, 200, 3000))]
    ws = pmap(_c09_worker, cases)
    viol = []
    n = 0
    kinds = {}
    for w in ws:
        if w.get("error"):
            viol.append(error_violation("C09", w)); continue
        n += w["checks"]
        for kind, msg in sorted(w["msgs"], key=lambda km: km[0] == "program")[:1]:
            viol.append({"property": "C09", "signature": "C09:" + kind + ":" + msg.split("(")[0], "what": msg, "case": w["case"], "failing_input": kind != "program",
                         **({"theorem_or_correspondence": "PetriNet.trap_program / deadlock_program vs the text sent to clingo"} if kind == "program" else {})})
    good = [w for w in ws if not w.get("error")]
    return {"evaluations": n, "distinct_nontrivial": len({case_hash(w["case"]) for w in good if w["n"] >= 3}),
            "rule": "random/modular networks; random calls of trappist (min/max/fix x reverse_time x enclosing subspace x avoided subspaces x source list (auto/none/explicit) x solution_limit in {None,0,1,2}; plus four consecutive calls re-using one explicit source list object, each judged against the designated contents; plus history independence: the maximal trap spaces of a restricted net must be the same whether it was derived from a pristine copy or from the net that answered earlier queries) and of compute_fixed_point_reduced_STG (retained set, ensure, avoid incl. empty avoid space, limit); (i) the program text sent to clingo.Control.add is compared rule-by-rule with the model program generated from the real net, (ii) the answers are compared with the trap spaces / reduced fixed points enumerated by the extracted twins (prefix semantics under a limit); evaluations = number of checks",
            "samples": [{"rules": w["case"]["rules"], "checks": w["checks"]} for w in good[:3]], "violations": viol, "extra": {"networks": len(cases)}}
