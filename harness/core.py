"""Harness core: network generation, truth tables, talking to the extracted model.

Always run with /venv/bin/python, PYTHONPATH=/repo (forced by ./check) so that the
library under test is /repo's current working tree."""
from __future__ import annotations
import itertools, json, os, random, subprocess, sys, hashlib, tempfile

VERIF = os.path.dirname(os.path.dirname(os.path.abspath(__file__)))
BBMODEL = os.path.join(VERIF, "ocaml", "bbmodel")

import biobalm  # noqa: E402  (from /repo via PYTHONPATH)
assert os.path.realpath(biobalm.__file__).startswith(os.path.realpath(os.environ.get("BB_REPO", "/repo"))), biobalm.__file__
from biobalm import SuccessionDiagram  # noqa: E402
from biodivine_aeon import AsynchronousGraph, BooleanNetwork  # noqa: E402
from biobalm.symbolic_utils import function_eval  # noqa: E402

# ---------------------------------------------------------------- networks
def names(n):
    w = len(str(n - 1))
    return [f"x{str(i).zfill(w)}" for i in range(n)]

def dnf_of_table(vars_, table):
    """table: dict from tuple of bools (over vars_) to bool -> bnet expression"""
    terms = []
    for vals, out in table.items():
        if out:
            terms.append("(" + " & ".join((v if b else "!" + v) for v, b in zip(vars_, vals)) + ")")
    if not terms:
        return "false"
    if len(terms) == 2 ** len(vars_):
        return "true"
    return " | ".join(terms)

def random_fn(rng, nm, me, max_k=3, p_self=0.15, monotone_bias=0.5):
    """random update function for variable `me` as a bnet expression"""
    n = len(nm)
    r = rng.random()
    if r < 0.06:
        return me                      # input
    if r < 0.10:
        return rng.choice(["true", "false"])
    k = rng.randint(1, min(max_k, n))
    pool = [v for v in nm if v != me]
    regs = rng.sample(pool, min(k, len(pool))) if pool else []
    if rng.random() < p_self or not regs:
        regs = (regs[: max(0, k - 1)] + [me])
    regs = sorted(set(regs))
    if rng.random() < monotone_bias:
        # nested canalizing style / threshold-ish monotone-in-literals function
        lits = [(v if rng.random() < 0.6 else "!" + v) for v in regs]
        expr = lits[0]
        for l in lits[1:]:
            expr = f"({expr} {rng.choice(['&', '|'])} {l})"
        return expr
    table = {vals: rng.random() < 0.5 for vals in itertools.product([False, True], repeat=len(regs))}
    return dnf_of_table(regs, table)

def random_network(rng, n, **kw):
    nm = names(n)
    return "\n".join(f"{v}, {random_fn(rng, nm, v, **kw)}" for v in nm)

GADGETS = {
    # name -> (number of vars, rules using $0.. for own vars and @ for an optional external regulator literal)
    "switch": (2, ["$0, $1", "$1, $0"]),
    "switch_and": (2, ["$0, $1 & @", "$1, $0"]),
    "negloop": (2, ["$0, !$1", "$1, $0"]),
    "negloop3": (3, ["$0, !$2", "$1, $0", "$2, $1"]),
    "xnor_maa": (2, ["$0, ($0 & $1) | (!$0 & !$1)", "$1, ($0 & $1) | (!$0 & !$1)"]),  # placeholder, replaced below
    "input": (1, ["$0, $0"]),
    "const": (1, ["$0, true"]),
    "cascade": (2, ["$0, @", "$1, $0"]),
    "selfact": (1, ["$0, $0 | @"]),
    "toggle": (1, ["$0, !$0"]),
    # a feedback loop whose sign is set by an external regulator (same variables, different dynamics per input value)
    "xnor_ctl": (2, ["$0, ($1 & @) | (!$1 & !@)", "$1, $0"]),
    "xor_ctl": (2, ["$0, ($1 & !@) | (!$1 & @)", "$1, $0"]),
    # the motif-avoidant module gated by an external regulator
    "maa_gated": (3, ["$0, ((!$0 & !$1) & @) | $2", "$1, ((!$0 & !$1) & @) | $2", "$2, $0 & $1"]),
}
# a classic 3-variable module with a motif-avoidant attractor possibility
MAA3 = (3, ["$0, (!$0 & $1) | ($0 & !$2) | ($1 & !$2)", "$1, (!$1 & $2) | ($1 & !$0) | ($2 & !$0)",
            "$2, (!$2 & $0) | ($2 & !$1) | ($0 & !$1)"])
GADGETS["xnor_maa"] = (2, ["$0, ($0 & $1) | (!$0 & !$1)", "$1, ($0 & !$1) | (!$0 & $1)"])
GADGETS["maa3"] = MAA3

def modular_network(rng, max_n):
    """assemble gadgets with random cross regulation; returns bnet text"""
    rules = []
    used = 0
    allv = []
    while used < max_n:
        g = rng.choice(list(GADGETS))
        k, rs = GADGETS[g]
        if used + k > max_n:
            if used > 0:
                break
            continue
        own = [f"x{used + i}" for i in range(k)]
        ext = None
        if allv and rng.random() < 0.7:
            ext = rng.choice(allv)
            if rng.random() < 0.3:
                ext = "!" + ext
        for r in rs:
            for i, v in enumerate(own):
                r = r.replace(f"${i}", v)
            if "@" in r:
                r = r.replace("@", ext if ext else "true")
            elif ext and rng.random() < 0.25:
                name, expr = r.split(", ", 1)
                r = f"{name}, ({expr}) {rng.choice(['&', '|'])} {ext}"
            rules.append(r)
        allv += own
        used += k
    return "\n".join(rules)

def permute_variables(rng, rules):
    """rename x_i -> x_pi(i) with a random permutation and list the rules in name order: the variables of one gadget are no longer
    adjacent, so the motifs of one block interleave with those of another in key order (seeded change w9_C03 needs that)"""
    import re
    lines = [l for l in rules.splitlines() if l.strip()]
    names = sorted({l.split(",")[0].strip() for l in lines}, key=lambda v: int(v[1:]) if v[1:].isdigit() else 0)
    if not all(re.fullmatch(r"x\d+", v) for v in names):
        return rules
    perm = names[:]
    rng.shuffle(perm)
    ren = dict(zip(names, perm))
    out = [re.sub(r"x\d+", lambda m: "Q" + ren.get(m.group(0), m.group(0))[1:], l) for l in lines]
    out = [l.replace("Q", "x") for l in out]
    out.sort(key=lambda l: int(l.split(",")[0].strip()[1:]))
    return "\n".join(out)

def all_two_var_networks():
    nm = ["x0", "x1"]
    vals = list(itertools.product([False, True], repeat=2))
    for t0 in itertools.product([False, True], repeat=4):
        for t1 in itertools.product([False, True], repeat=4):
            yield "\n".join([f"x0, {dnf_of_table(nm, dict(zip(vals, t0)))}", f"x1, {dnf_of_table(nm, dict(zip(vals, t1)))}"])

def free_inputs_variant(rng, rules):
    """rewrite some identity inputs 'x, x' as free inputs (no rule at all), keeping them if used elsewhere"""
    lines = rules.splitlines()
    out = []
    for l in lines:
        v, e = [t.strip() for t in l.split(",", 1)]
        used = any(v in l2.split(",", 1)[1] for l2 in lines if not l2.startswith(v + ","))
        if e == v and used and rng.random() < 0.8:
            continue
        out.append(l)
    return "\n".join(out) if out else rules

def latch_network(rng, n):
    """x_i := x_i | (implications of other variables): only trap spaces 'these variables are on'; many skip-level edges"""
    rules = []
    for i in range(n):
        terms = []
        for _ in range(rng.randint(1, 2)):
            others = rng.sample([j for j in range(n) if j != i], rng.randint(1, min(3, n - 1)))
            terms.append("(" + " & ".join(f"x{j}" for j in others) + ")")
        rules.append(f"x{i}, x{i} | " + " | ".join(terms))
    return "\n".join(rules)

def gen_network(rng, nmin=2, nmax=6):
    r = rng.random()
    if r < 0.5:
        return random_network(rng, rng.randint(nmin, nmax))
    if r < 0.58 and nmax >= 4:
        return latch_network(rng, rng.randint(min(max(nmin, 4), 6), min(nmax, 6)))    # larger ones have hundreds of nodes: too slow for per-op dumps
    return modular_network(rng, rng.randint(max(nmin, 2), nmax))

# ---------------------------------------------------------------- real side helpers
def make_sd(rules, config=None, fmt="bnet"):
    cfg = SuccessionDiagram.default_config()
    if config:
        cfg.update(config)
    return SuccessionDiagram.from_rules(rules, format=fmt, config=cfg)

def var_names(sd):
    return list(sd.network.variable_names())

def tables_of(sd):
    """truth tables (strings of 2^n bits, index = sum s_i 2^(n-1-i)) of the *real* network"""
    nm = var_names(sd)
    n = len(nm)
    g = sd.symbolic
    fns = []
    for v in nm:
        f = sd.network.get_update_function(v)
        fns.append(None if f is None else g.mk_update_function(v))
    tabs = []
    for i, f in enumerate(fns):
        bits = []
        for vals in itertools.product([0, 1], repeat=n):
            if f is None:
                bits.append(str(vals[i]))        # free input: identity (what the Petri net encodes)
            else:
                r = function_eval(f, dict(zip(nm, vals)))
                assert r is not None
                bits.append(str(r))
        tabs.append("".join(bits))
    return tabs

def sp2s(space, nm):
    return "".join(str(int(space[v])) if v in space else "*" for v in nm)

def s2sp(s, nm):
    return {v: int(c) for v, c in zip(nm, s) if c != "*"}

# ---------------------------------------------------------------- model side
class Model:
    """One batch = one bbmodel process fed a script; returns the output lines."""
    def __init__(self, n, tabs, max_motifs=100000, fuel=100000):
        self.lines = [f"net {n}"] + list(tabs) + [f"cfg {max_motifs}", f"fuel {fuel}"]
        self.n_header = 3
        self.cmds = []

    def add(self, cmd):
        self.cmds.append(cmd)
        return len(self.cmds) - 1

    def run(self, timeout=600):
        script = "\n".join(self.lines + self.cmds) + "\n"
        p = subprocess.run([BBMODEL], input=script, capture_output=True, text=True, timeout=timeout)
        if p.returncode != 0:
            raise RuntimeError("bbmodel failed: " + p.stderr[-2000:])
        out = p.stdout.splitlines()
        assert len(out) == self.n_header + len(self.cmds), (len(out), len(self.cmds), p.stderr[-500:], out[-3:])
        return out[self.n_header:]

def parse_spaces(s):
    return [] if s == "-" else s.split(";")

def parse_states(s):
    return [] if s == "-" else s.split(",")

def parse_attractors(s):
    return [] if s == "-" else [sorted(a.split(",")) for a in s.split(" ")]

def opt(x):
    return "-" if x is None else str(x)

# ---------------------------------------------------------------- dumps
def dump_real(sd):
    nm = var_names(sd)
    ns = []
    for i in range(len(sd)):
        d = sd.node_data(i)
        flags = "".join("0" if d[k] is None else "1" for k in ("attractor_candidates", "attractor_seeds", "attractor_sets"))
        ns.append(f"{sp2s(d['space'], nm)},{d['depth']},{int(bool(d['expanded']))},{int(bool(d['skipped']))},{flags}")
    es = []
    for (a, b, data) in sd.dag.edges(data=True):
        ms = ";".join(sp2s(m, nm) for m in data["all_motifs"])
        assert data["motif"] == data["all_motifs"][0]
        es.append(f"{a}>{b}:{ms}")
    return "nodes=" + "|".join(ns) + " edges=" + ("|".join(es) if es else "-")

def canon_dump(s, ignore_attr=False, **_kw):
    """order-insensitive view of a dump line (edge list order is a dict-iteration artefact)"""
    nodes, edges = s.split(" edges=")
    nodes = nodes[len("nodes="):].split("|")
    if ignore_attr:
        nn = []
        for x in nodes:
            f = x.split(",")
            f[4] = "---"
            nn.append(",".join(f))
        nodes = nn
    edges = [] if edges == "-" else sorted(edges.split("|"))
    return {"nodes": nodes, "edges": edges}

def case_hash(obj):
    return hashlib.sha1(json.dumps(obj, sort_keys=True).encode()).hexdigest()[:12]
