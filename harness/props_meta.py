"""C17 (presentation independence), C18 (composition), C19 (reproducibility)."""
from __future__ import annotations
from props import *
import props as P
from props_struct import _sizes
from props_solver import rand_space
import re, subprocess
from biodivine_aeon import BooleanNetwork
from biobalm.petri_net_translation import sanitize_network_names

# ---------------------------------------------------------------- shared: id-free result of a build
def result_view(sd, nm, to_orig=None):
    """id-free view: node spaces, edges with motifs, minimal trap spaces, seeds (all through `to_orig`)"""
    f = to_orig or (lambda sp: tuple(sorted(sp.items())))
    nodes = {}
    for i in range(len(sd)):
        d = sd.node_data(i)
        nodes[f(d["space"])] = (bool(d["expanded"]), bool(d["skipped"]))
    edges = {}
    for a, b, data in sd.dag.edges(data=True):
        edges[(f(sd.node_data(a)["space"]), f(sd.node_data(b)["space"]))] = tuple(sorted(f(m) for m in data["all_motifs"]))
    mins = sorted(f(sd.node_data(i)["space"]) for i in sd.minimal_trap_spaces())
    seeds = []
    for i in sd.expanded_ids():
        for s in sd.node_attractor_seeds(i, compute=True):
            seeds.append(f(s))
    return {"nodes": nodes, "edges": edges, "mins": mins, "seeds": seeds}

def attractor_ids(seeds_as_states, attractors):
    """map each seed (state string) to the index of the brute-force attractor containing it"""
    out = []
    for s in seeds_as_states:
        k = next((i for i, a in enumerate(attractors) if s in a), None)
        out.append(k)
    return sorted(out, key=lambda x: (-1 if x is None else x))

# ---------------------------------------------------------------- transformations of bnet text
def parse_rules(rules):
    out = []
    for l in rules.splitlines():
        v, e = l.split(",", 1)
        out.append((v.strip(), e.strip()))
    return out

def subst_vars(expr, mapping):
    return re.sub(r"[A-Za-z_][A-Za-z0-9_]*", lambda m: mapping.get(m.group(0), m.group(0)), expr)

def t_rename(rng, rules):
    rs = parse_rules(rules)
    names = [v for v, _ in rs]
    new = [f"{rng.choice('pqrstuvw')}{rng.randint(0, 99)}_{i}" for i in range(len(names))]
    rng.shuffle(new)
    mp = dict(zip(names, new))
    lines = [f"{mp[v]}, {subst_vars(e, mp)}" for v, e in rs]
    rng.shuffle(lines)                      # declaration order
    inv = {b: a for a, b in mp.items()}
    return "\n".join(lines), (lambda sp: tuple(sorted((inv[k], v) for k, v in sp.items())))

def t_rename_prefix(rng, rules):
    """renaming in which every name is a prefix (up to an underscore) of others: v, v_k, v_k_k, ... in a random assignment -- code that
    recognises a variable's places / transitions by a name PREFIX instead of the exact name confuses them (seeded change w11_C17)"""
    rs = parse_rules(rules)
    names = [v for v, _ in rs]
    new = ["v" + "_k" * i for i in range(len(names))]
    rng.shuffle(new)
    mp = dict(zip(names, new))
    lines = [f"{mp[v]}, {subst_vars(e, mp)}" for v, e in rs]
    inv = {b: a for a, b in mp.items()}
    return "\n".join(lines), (lambda sp: tuple(sorted((inv[k], v) for k, v in sp.items())))

def t_flip(rng, rules):
    rs = parse_rules(rules)
    names = [v for v, _ in rs]
    fl = {v for v in names if rng.random() < 0.5} or {names[0]}
    mp = {v: f"(!n_{v})" for v in fl}
    lines = []
    for v, e in rs:
        e2 = subst_vars(e, {**mp, "true": "true", "false": "false"})
        lines.append(f"n_{v}, !({e2})" if v in fl else f"{v}, {e2}")
    def back(sp):
        out = []
        for k, val in sp.items():
            if k.startswith("n_") and k[2:] in fl:
                out.append((k[2:], 1 - int(val)))
            else:
                out.append((k, int(val)))
        return tuple(sorted(out))
    return "\n".join(lines), back

def t_equiv(rng, rules):
    """replace every update function by an equivalent formula: full DNF over its support, or a double negation"""
    rs = parse_rules(rules)
    sd = make_sd(rules); nm = var_names(sd); tabs = tables_of(sd); n = len(nm)
    lines = []
    for v, e in rs:
        i = nm.index(v)
        if rng.random() < 0.5:
            lines.append(f"{v}, !(!({e}))")
        else:
            terms = []
            for vals in itertools.product([0, 1], repeat=n):
                if tabs[i][int("".join(map(str, vals)), 2)] == "1":
                    terms.append("(" + " & ".join((x if b else "!" + x) for x, b in zip(nm, vals)) + ")")
            expr = " | ".join(terms) if terms else "false"
            if len(terms) == 2 ** n:
                expr = "true"
            lines.append(f"{v}, {expr}")
    return "\n".join(lines), None

def _c17_worker(case):
    import signal
    signal.signal(signal.SIGALRM, P._alarm); signal.alarm(P.CASE_TIMEOUT)
    try:
        rng = random.Random(case["seed"])
        rules = case["rules"]
        sd0 = make_sd(rules); nm0 = var_names(sd0); tabs0 = tables_of(sd0)
        strat = case["strategy"]
        def run(sd):
            if strat == "bfs":
                sd.expand_bfs()
            elif strat == "block":
                sd.expand_block()
            elif strat == "aseeds":
                sd.expand_attractor_seeds()
            else:
                sd.build()
        run(sd0)
        base = result_view(sd0, nm0)
        m = Model(len(nm0), tabs0); m.add("attractors"); attrs = parse_attractors(m.run()[0])
        def seed_states(view):
            return ["".join(str(dict(s)[v]) for v in nm0) for s in view["seeds"]]
        base_ids = attractor_ids(seed_states(base), attrs)
        msgs = []
        kinds = list(case["transforms"]) + (["prefix"] if case["seed"] % 2 == 0 or case.get("prefix") else [])      # additive, own random stream
        for kind in kinds:
            if kind == "prefix":
                r2, back = t_rename_prefix(random.Random(case["seed"] ^ 0x17), rules); sd = make_sd(r2)
            elif kind == "rename":
                r2, back = t_rename(rng, rules); sd = make_sd(r2)
            elif kind == "flip":
                r2, back = t_flip(rng, rules); sd = make_sd(r2)
            elif kind == "equiv":
                r2, back = t_equiv(rng, rules); sd = make_sd(r2)
            elif kind in ("aeon", "sbml"):
                bn = BooleanNetwork.from_bnet(rules)
                text = bn.to_aeon() if kind == "aeon" else bn.to_sbml()
                sd = SuccessionDiagram.from_rules(text, format=kind); back = None; r2 = text
            run(sd)
            v = result_view(sd, var_names(sd), back)
            if kind == "flip" or kind == "rename" or kind == "prefix" or strat != "bfs":
                # node ids / exact structure may legitimately differ in order; compare id-free
                pass
            if set(v["nodes"]) != set(base["nodes"]) or v["edges"] != base["edges"]:
                if strat == "bfs":
                    msgs.append((kind, f"{kind}: the fully expanded diagram differs from the original's (through the transformation)"))
                    continue
            if v["mins"] != base["mins"]:
                msgs.append((kind, f"{kind}: minimal trap spaces differ: {v['mins'][:3]} vs {base['mins'][:3]}")); continue
            ids = attractor_ids(seed_states(v), attrs)
            if ids != base_ids or None in ids:
                msgs.append((kind, f"{kind}: attractors found differ: attractor indices {ids} vs {base_ids} (None = seed in no attractor)"))
        return {"case": case, "msgs": msgs, "n": len(nm0), "nodes": len(base["nodes"]), "error": None}
    except P.CaseTimeout:
        return {"case": case, "error": None, "timeout": True, "steps": []}
    except Exception:
        return {"case": case, "error": traceback.format_exc()}
    finally:
        signal.alarm(0)

def _enc_names(names):
    return ";".join((",".join(str(ord(c)) for c in x) or "~") for x in names) or "-"

def _dec_names(s):
    return [] if s == "-" else [("" if x == "~" else "".join(chr(int(c)) for c in x.split(","))) for x in s.split(";")]

_SAN_ALPHABET = ["a", "b", "x", "1", "_", "_", "{", "}", "[", "]", " ", "-", ".", "\n", "\u00e9", "\u20ac", "Z", "0"]

def _weird_names(rng, n):
    """names that need sanitising, collide after sanitising, are empty, end in a newline, are non-ASCII ..."""
    out = []
    for i in range(n):
        r = rng.random()
        if r < 0.25 and out:                      # collide with an earlier name after substitution / prefixing
            base = rng.choice(out)
            name = rng.choice(["_" * rng.randint(0, 2) + re.sub("[^a-zA-Z0-9_]", rng.choice(["_", "{", "-"]), base), base + rng.choice(["", "\n", "}"])])
        elif r < 0.33:
            name = rng.choice(["", "_", "__", "\n", "a\n", "a_", "a{", "_a_"])
        else:
            name = "".join(rng.choice(_SAN_ALPHABET) for _ in range(rng.randint(1, 4)))
        if name in ("0", "1", "true", "false"):   # constants of AEON's expression syntax: BooleanNetwork.drop() turns
            name = "x" + name                      # such a variable into a constant (AEON behaviour, outside C17)
        out.append(name)
    return out

def _sanitize_worker(case):
    try:
        rng = random.Random(case["seed"])
        bn = BooleanNetwork.from_bnet(case["rules"])
        n = bn.variable_count()
        before = tables_of(SuccessionDiagram(bn))
        weird = []
        for v, name in zip(bn.variables(), case.get("names") or _weird_names(rng, n)):
            try:
                bn.set_variable_name(v, name)
            except Exception:                     # AEON refuses duplicates: keep the original name
                pass
        weird = bn.variable_names()
        msgs = []
        m = Model(1, ["01"])
        m.add("sanitize " + _enc_names(weird)); m.add("checkonly " + _enc_names(weird))
        mo = m.run()
        expected = None if mo[0] == "none" else _dec_names(mo[0])
        try:
            s = sanitize_network_names(bn)
        except Exception as e:
            return {"case": case, "msgs": [("sanitize", f"sanitize_network_names raised {type(e).__name__} on {weird!r}")], "n": n, "names": weird, "raised": type(e).__name__, "error": None}
        names = s.variable_names()
        if names != expected:
            msgs.append(("sanitize-model", f"sanitised names {names!r} differ from the model's {expected!r} for {weird!r}"))
        if len(set(names)) != len(names):
            msgs.append(("sanitize", f"sanitised names are not distinct: {names!r}"))
        if not all(re.fullmatch("[a-zA-Z0-9_]+", x) for x in names):
            msgs.append(("sanitize", f"a sanitised name is not solver-safe: {names!r} (from {weird!r})"))
        try:
            sanitize_network_names(bn, check_only=True); chk = "true"
        except RuntimeError:
            chk = "false"
        if chk != mo[1]:
            msgs.append(("sanitize", f"check_only accepts={chk}, model says {mo[1]} for {weird!r}"))
        try:
            after = tables_of(SuccessionDiagram(s))
            if after != before:
                msgs.append(("sanitize", f"sanitisation changed the dynamics ({weird!r} -> {names!r})"))
            sd2 = SuccessionDiagram(s); sd2.build()
        except (KeyboardInterrupt, P.CaseTimeout):
            raise
        except BaseException as e:            # AEON panics are BaseExceptions
            msgs.append(("sanitize", f"the sanitised network is not usable: {type(e).__name__} {str(e)[:80]} ({weird!r} -> {names!r})"))
        msgs.sort(key=lambda x: x[0] == "sanitize-model")     # failing inputs first
        return {"case": case, "msgs": msgs, "n": n, "names": weird, "error": None,
                "renamed": sum(1 for a, b in zip(weird, names) if a != b), "clash": sum(1 for a, b in zip(weird, names) if b.startswith("_") and not re.sub("[^a-zA-Z0-9_]", "_", a).startswith("_") or len(b) > len(a))}
    except (KeyboardInterrupt, P.CaseTimeout):
        raise
    except BaseException:
        return {"case": case, "error": traceback.format_exc()}

@register("C17")
def run_C17(tier, seed):
    rng = random.Random(seed)
    cases = load_corpus("C17")
    for _ in range(_sizes(tier, 200, 3000)):
        rules = gen_network(rng, 2, _sizes(tier, 6, 7))
        cases.append({"rules": rules, "seed": rng.randrange(10**9), "strategy": rng.choice(["bfs", "bfs", "build", "block", "aseeds"]),
                      "transforms": rng.sample(["rename", "flip", "equiv", "aeon", "sbml"], 3)})
    ws = pmap(_c17_worker, cases)
    three = "a, b\nb, a\nc, a"
    scases = [{"rules": three, "seed": 1, "names": nm} for nm in
              (["a\n", "b", "c"], ["", "_", "__"], ["a{", "a_", "_a_"], ["a}", "a{", "a]"], ["\n", "\n\n", "_"], ["\u00e9", "_", "x y"], ["b1_a", "b0_a", "a"])]
    scases += [{"rules": gen_network(rng, 2, 6), "seed": rng.randrange(10**9)} for _ in range(_sizes(tier, 150, 2000))]
    ss = pmap(_sanitize_worker, scases)
    viol = harness_errors(ws, "C17")
    for w in ws + ss:
        if w.get("error") or w.get("timeout"):
            if w in ss and w.get("error"):
                viol.append(error_violation("C17", w))
            continue
        for sig, msg in w["msgs"][:1]:
            viol.append({"property": "C17", "signature": "C17:" + sig, "what": msg, "case": w["case"], "failing_input": sig != "sanitize-model"})
    good = [w for w in ws if not w.get("error") and not w.get("timeout")]
    return {"evaluations": len(cases) * 3 + len(scases), "distinct_nontrivial": len({case_hash(w["case"]) for w in good if w["nodes"] > 2}),
            "rule": "metamorphic pairs on the real code: random renaming + reordering of declarations, renaming to names that are prefixes of one another (v, v_k, v_k_k, ...; every second case), polarity flip of a random subset of variables (x := !n_x everywhere), replacement of every update function by an equivalent formula (full DNF or double negation), round trips through aeon and sbml text; the full BFS diagram (node spaces, edges, motif lists), minimal trap spaces and the set of attractors identified by the seeds (mapped to brute-force attractors of the original) must coincide through the transformation; plus sanitize_network_names on networks renamed with brackets/braces/underscores incl. names colliding after sanitising (distinct, solver-safe, same truth tables); non-trivial = more than 2 nodes",
            "samples": [w["case"] for w in good[:3]], "violations": viol, "extra": {"sanitize_cases": len(scases), "sanitize_raised": sum(1 for w in ss if w.get("raised")),
                      "sanitize_names_renamed": sum(w.get("renamed", 0) for w in ss), "sanitize_names_with_clash_prefix": sum(w.get("clash", 0) for w in ss)}}

# ---------------------------------------------------------------- C18
def _c18_worker(case):
    import signal
    signal.signal(signal.SIGALRM, P._alarm); signal.alarm(P.CASE_TIMEOUT)
    try:
        rng = random.Random(case["seed"])
        msgs = []
        kind = case["kind"]
        if kind == "union":
            r1 = case["rules"]; r2 = subst_vars(case["rules2"], {f"x{i}": f"y{i}" for i in range(10)})
            strat = case["strategy"]
            def res(rules):
                sd = make_sd(rules); nm = var_names(sd)
                if strat == "build":
                    sd.build()
                elif strat == "block":
                    sd.expand_block()
                elif strat == "scc":
                    sd.expand_scc()
                else:
                    sd.expand_bfs()
                mins = sorted(tuple(sorted(sd.node_data(i)["space"].items())) for i in sd.minimal_trap_spaces())
                seeds = [s for i in sd.expanded_ids() for s in sd.node_attractor_seeds(i, compute=True)]
                tabs = tables_of(sd); m = Model(len(nm), tabs); m.add("attractors"); attrs = parse_attractors(m.run()[0])
                ids = attractor_ids(["".join(str(s[v]) for v in nm) for s in seeds], attrs)
                return mins, ids, len(attrs), nm
            m1, i1, a1, n1 = res(r1); m2, i2, a2, n2 = res(r2); mu, iu, au, nu = res(r1 + "\n" + r2)
            prod = sorted(tuple(sorted(x + y)) for x in m1 for y in m2)
            if mu != prod:
                msgs.append(("union-min-traps", f"minimal trap spaces of the union are not the pairwise products: {len(mu)} vs {len(m1)}x{len(m2)}"))
            if None in iu or len(iu) != len(set(iu)) or len(iu) != au or au != a1 * a2 or len(i1) != a1 or len(i2) != a2:
                msgs.append(("union-attractors", f"attractors of the union: {len(iu)} seeds for {au} attractors; parts {len(i1)}/{a1} and {len(i2)}/{a2}; product {a1 * a2}"))
            # the library's own decomposition primitive: the component sub-diagram of the union over the variables of one part (no node
            # given = the full network) is the diagram of that part
            su = make_sd(r1 + "\n" + r2)
            for part, mins_p, na_p in ((n1, m1, a1), (n2, m2, a2)):
                cs = su.component_subdiagram(list(part))
                cs.expand_bfs()
                mc = sorted(tuple(sorted(cs.node_data(i)["space"].items())) for i in cs.minimal_trap_spaces())
                nc = sum(len(cs.node_attractor_seeds(i, compute=True)) for i in cs.expanded_ids())
                if mc != mins_p or nc != na_p:
                    msgs.append(("union-component-subdiagram", f"component_subdiagram({list(part)}) of the union: {len(mc)} minimal trap spaces / {nc} attractors, "
                                                               f"the part alone has {len(mins_p)} / {na_p}"))
                    break
        else:
            rules = case["rules"]
            sd = make_sd(rules); nm = var_names(sd); n = len(nm)
            def _is_identity(line, v):
                lhs, rhs = line.split(",", 1)
                rhs = rhs.replace(" ", "")
                while rhs.startswith("(") and rhs.endswith(")"):
                    rhs = rhs[1:-1]
                return lhs.strip() == v and rhs == v
            srcs = [v for v in nm if any(_is_identity(l, v) for l in rules.splitlines())]
            # every variable whose update function is the identity is an input of the library (semantic test on the truth tables)
            tabs0 = tables_of(sd)
            sem = [v for i, v in enumerate(nm) if all((tabs0[i][k] == "1") == bool((k >> (n - 1 - i)) & 1) for k in range(2 ** n))]
            srcs = sem
            if not srcs:
                return {"case": case, "msgs": [], "trivial": True, "error": None}
            val = {v: rng.randint(0, 1) for v in srcs}
            if case.get("val"):
                val = {v: int(b) for v, b in case["val"].items()}
            fixed_rules = "\n".join((f"{l.split(',')[0].strip()}, {'true' if val[l.split(',')[0].strip()] else 'false'}" if l.split(",")[0].strip() in val else l) for l in rules.splitlines())
            sd.expand_bfs(); sf = make_sd(fixed_rules); sf.expand_bfs()
            # the sub-diagram below the node of the valuation
            import networkx as nx
            perc = biobalm.space_utils.percolate_space(sd.symbolic, val)
            start = sd.find_node(perc)
            if start is None:
                msgs.append(("input-node-missing", f"no node for the input valuation {val} (percolated {perc})"))
            else:
                below = {start} | set(nx.descendants(sd.dag, start))
                f = lambda sp: tuple(sorted(sp.items()))
                A = {f(sd.node_data(i)["space"]) for i in below}
                B = {f(sf.node_data(i)["space"]) for i in sf.node_ids()}
                EA = {(f(sd.node_data(a)["space"]), f(sd.node_data(b)["space"])) for a, b in sd.dag.edges() if a in below}
                EB = {(f(sf.node_data(a)["space"]), f(sf.node_data(b)["space"])) for a, b in sf.dag.edges()}
                if A != B or EA != EB:
                    msgs.append(("input-restriction", f"diagram of the network with inputs fixed to {val} is not the sub-diagram below the node of that valuation ({len(A)} vs {len(B)} nodes)"))
                sa = sorted(f(s) for i in below for s in sd.node_attractor_seeds(i, compute=True))
                # compare attractors through the oracle of the free-input network
                tabs = tables_of(sd); m = Model(n, tabs); m.add("attractors"); attrs = parse_attractors(m.run()[0])
                ia = attractor_ids(["".join(str(dict(s)[v]) for v in nm) for s in sa], attrs)
                sb = [s for i in sf.expanded_ids() for s in sf.node_attractor_seeds(i, compute=True)]
                ib = attractor_ids(["".join(str(s[v]) for v in nm) for s in sb], attrs)
                if ia != ib or None in ia:
                    msgs.append(("input-attractors", f"attractors below the input node {ia} vs attractors of the fixed-input network {ib}"))
                # the same through the default flow (build() = block expansion with motif-avoidance checks)
                sdb = make_sd(rules); sdb.build(); sfb = make_sd(fixed_rules); sfb.build()
                st = lambda s_: "".join(str(int(s_[v])) for v in nm)
                free_b = [st(s_) for i in sdb.expanded_ids() for s_ in sdb.node_attractor_seeds(i, compute=True)]
                free_b = [x for x in free_b if all(x[nm.index(v)] == str(b) for v, b in val.items())]
                fix_b = [st(s_) for i in sfb.expanded_ids() for s_ in sfb.node_attractor_seeds(i, compute=True)]
                if case.get("block_shape"):
                    # corpus cases only: under the default block expansion too, the diagram of the fixed-input network is the part of the free-input
                    # diagram below the valuation node -- same node spaces, expanded flags and edges (seeded change w12_C18)
                    startb = sdb.find_node(perc)
                    if startb is None:
                        msgs.append(("input-node-missing-build", f"build(): no node for the input valuation {val}"))
                    else:
                        belowb = {startb} | set(nx.descendants(sdb.dag, startb))
                        Ab = {(f(sdb.node_data(i)["space"]), bool(sdb.node_data(i)["expanded"])) for i in belowb}
                        Bb = {(f(sfb.node_data(i)["space"]), bool(sfb.node_data(i)["expanded"])) for i in sfb.node_ids()}
                        EAb = {(f(sdb.node_data(a_)["space"]), f(sdb.node_data(b_)["space"])) for a_, b_ in sdb.dag.edges() if a_ in belowb}
                        EBb = {(f(sfb.node_data(a_)["space"]), f(sfb.node_data(b_)["space"])) for a_, b_ in sfb.dag.edges()}
                        if Ab != Bb or EAb != EBb:
                            msgs.append(("input-restriction-build", f"build(): diagram of the network with inputs fixed to {val} ({len(Bb)} nodes) is not the part of the free-input diagram below the node of that valuation ({len(Ab)} nodes)"))
                ja, jb = attractor_ids(free_b, attrs), attractor_ids(fix_b, attrs)
                if sorted(x for x in ja if x is not None) != sorted(x for x in jb if x is not None) or None in ja or None in jb or len(set(ja)) != len(ja):
                    msgs.append(("input-attractors-build", f"build(): attractors of the free-input network under {val}: {ja}; of the network with the inputs fixed: {jb}"))
        return {"case": case, "msgs": msgs, "error": None}
    except P.CaseTimeout:
        return {"case": case, "error": None, "timeout": True, "steps": []}
    except Exception:
        return {"case": case, "error": traceback.format_exc()}
    finally:
        signal.alarm(0)

def _bbm_attr_worker(f):
    """build() vs biodivine_aeon.Attractors on one repository model, in a child process with a hard time budget"""
    budget = int(os.environ.get("VERIF_BBM_TIMEOUT", "60"))
    child = os.path.join(os.path.dirname(__file__), "bbm_child.py")
    try:
        p = subprocess.run([sys.executable, child, f], capture_output=True, text=True, timeout=budget)
        lines = [l for l in p.stdout.splitlines() if l.startswith("[")]
        if not lines:
            return (f, f"error child produced no result: {p.stderr[-300:]}", 0)
        r = json.loads(lines[-1])
        return (r[0], r[1], r[2])
    except subprocess.TimeoutExpired:
        return (f, "skipped", 0)

@register("C18")
def run_C18(tier, seed):
    rng = random.Random(seed)
    cases = load_corpus("C18")
    for _ in range(_sizes(tier, 120, 1500)):
        cases.append({"kind": "union", "rules": gen_network(rng, 2, 4), "rules2": gen_network(rng, 2, 4), "seed": rng.randrange(10**9),
                      "strategy": rng.choice(["build", "bfs", "block", "scc"])})
    for _ in range(_sizes(tier, 150, 1500)):
        rules = modular_network(rng, rng.randint(3, 6)) if rng.random() < 0.5 else gen_network(rng, 3, 6)
        if "x0, x0" not in rules and rng.random() < 0.7:
            lines = rules.splitlines(); lines[0] = "x0, x0"; rules = "\n".join(lines)
        cases.append({"kind": "inputs", "rules": rules, "seed": rng.randrange(10**9)})
    ws = pmap(_c18_worker, cases)
    viol = harness_errors(ws, "C18")
    for w in ws:
        if w.get("error") or w.get("timeout"):
            continue
        for sig, msg in w["msgs"][:1]:
            viol.append({"property": "C18", "signature": "C18:" + sig, "what": msg, "case": w["case"], "failing_input": True})
    extra = {}
    import glob
    files = sorted(glob.glob("/repo/models/bbm-bnet-inputs-true/*.bnet"))
    files = [f for f in files if os.path.getsize(f) < (2500 if tier == "quick" else 40000)]
    if tier == "quick":
        files = files[:: max(1, len(files) // 12)]
    res = pmap(_bbm_attr_worker, files)
    bad = [r for r in res if r[1] not in (None, "skipped")]
    for f, msg, n in bad[:3]:
        viol.append({"property": "C18", "signature": "C18:bbm-disagrees-with-aeon", "what": f"{f}: {msg}", "case": {"file": f}, "failing_input": True})
    extra["bbm"] = {"models_compared": sum(1 for r in res if r[1] is None), "skipped": sum(1 for r in res if r[1] == "skipped"), "max_vars": max([r[2] for r in res] or [0])}
    good = [w for w in ws if not w.get("error") and not w.get("timeout")]
    return {"evaluations": len(cases) + len(files), "distinct_nontrivial": len({case_hash(w["case"]) for w in good if not w.get("trivial")}),
            "rule": "disjoint unions of two random networks (minimal trap spaces = pairwise products; seeds of the union one-to-one with the product of the brute-force attractor counts; strategies build/bfs/block/scc; component_subdiagram(variables of one part) of the union, expanded, has the minimal trap spaces and attractor count of that part alone); networks with identity inputs: the BFS diagram of the network with inputs fixed to a random valuation must equal the sub-diagram below the node of that valuation, with the same attractors; and build() vs biodivine_aeon.Attractors on repository models (a sample in quick, all that finish within the budget in thorough)",
            "samples": [w["case"] for w in good[:3]], "violations": viol, "extra": extra}

# ---------------------------------------------------------------- C19
CHILD = os.path.join(os.path.dirname(__file__), "repro_child.py")

def _c19_batch(args):
    hashseed, cases = args
    env = dict(os.environ); env["PYTHONHASHSEED"] = str(hashseed); env["PYTHONPATH"] = "/repo:" + os.path.dirname(os.path.abspath(__file__))
    p = subprocess.run(["/venv/bin/python", CHILD], input=json.dumps(cases), capture_output=True, text=True, env=env, timeout=1200)
    if p.returncode != 0:
        return {"error": p.stderr[-2000:], "hashseed": hashseed}
    return {"hashseed": hashseed, "out": json.loads(p.stdout.splitlines()[-1])}

@register("C19")
def run_C19(tier, seed):
    rng = random.Random(seed)
    cases = load_corpus("C19")
    for _ in range(_sizes(tier, 96, 1200)):
        rules = gen_network(rng, 2, _sizes(tier, 6, 7)) if rng.random() < 0.6 else modular_network(rng, rng.randint(4, 7))
        n = len(rules.splitlines())
        cases.append({"rules": rules, "strategy": rng.choice(["build", "bfs", "dfs", "block", "scc", "aseeds", "min"]),
                      "target": rand_space(rng, n, 0.5), "control": rng.choice(["internal", "all"]), "config": {}})
    batches = [cases[i:i + 12] for i in range(0, len(cases), 12)]
    seeds = [0, 1, 424242] if tier == "quick" else [0, 1, 7, 99, 424242, 2**31 - 1]
    jobs = [(hs, b) for b in batches for hs in seeds]
    res = pmap(_c19_batch, jobs)
    viol = []
    compared = 0
    byb = {}
    for (hs, b), r in zip(jobs, res):
        if r.get("error"):
            viol.append({"property": "C19", "signature": "harness-error:child", "case": {"hashseed": hs}, "error": r["error"], "failing_input": False}); continue
        byb.setdefault(id(b), []).append((hs, b, r["out"]))
    for key, runs in byb.items():
        hs0, b, out0 = runs[0]
        for ci, case in enumerate(b):
            first, again = out0[ci]["first"], out0[ci]["again"]
            compared += 1
            if first != again:
                viol.append({"property": "C19", "signature": "C19:depends-on-earlier-work-in-process", "what": f"same network built twice in one process (another diagram built in between) gives different results: {_first_diff(first, again)}", "case": case, "failing_input": True}); continue
            for hs, _, out in runs[1:]:
                if out[ci]["first"] != first:
                    viol.append({"property": "C19", "signature": "C19:depends-on-hash-seed", "what": f"PYTHONHASHSEED={hs0} and {hs} give different results: {_first_diff(first, out[ci]['first'])}", "case": case, "failing_input": True}); break
    return {"evaluations": compared * len(seeds), "distinct_nontrivial": len({case_hash(c) for c in cases}),
            "rule": "every case (network, strategy in {build,bfs,dfs,block,scc,attractor seeds,minimal}, seeds of all expanded nodes, succession control for a random target) is run in fresh interpreter processes under PYTHONHASHSEED in {0,1,424242} (6 values in thorough); inside each process it is run, then an unrelated case is run, then it is run again; complete dumps (ids, spaces, depths, flags, edges, motifs in order, seeds in order, canonical interventions) must be identical across repetitions and hash seeds",
            "samples": cases[:3], "violations": viol, "extra": {"processes": len(jobs)}}

def _first_diff(a, b):
    for k in a:
        if a[k] != b.get(k):
            return f"field {k}: {str(a[k])[:200]} vs {str(b.get(k))[:200]}"
    return "?"
