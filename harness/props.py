"""Property runners.  Each returns dict(evaluations, distinct_nontrivial, rule, samples, violations, extra)."""
from __future__ import annotations
import json, multiprocessing as mp, os, random, time, itertools, traceback
from core import *
import history as H

NPROC = min(16, os.cpu_count() or 4)
REGISTRY = {}

def register(pid):
    def deco(f):
        REGISTRY[pid] = f
        return f
    return deco

_GUARDED = None
def _guard(item):
    """a worker must never die: a BaseException that escapes (e.g. a Rust panic surfacing as
    pyo3 PanicException) would kill the pool process and hang imap forever"""
    try:
        if isinstance(item, dict) and item.get("fix_timeout"):
            # the history already hit the watchdog while it was being prepared (_fix_worker): do not wait for it a second
            # time in the main pass; it is run for real only in the retry pass (3x budget, alone)
            if CASE_TIMEOUT <= BASE_CASE_TIMEOUT:
                return {"case": item, "error": None, "timeout": True, "steps": []}
            item = {k: v for k, v in item.items() if k != "fix_timeout"}
        return _GUARDED(item)
    except KeyboardInterrupt:
        raise
    except BaseException:
        import traceback
        return {"case": item if isinstance(item, dict) else {"item": repr(item)[:500]}, "error": "worker died: " + traceback.format_exc()[-3000:]}

def pmap(fn, items, procs=NPROC, max_timeouts=3):
    """parallel map; if several cases hit the watchdog the remaining ones are not run (the
    violation is already established and each further stall costs CASE_TIMEOUT seconds)"""
    if len(items) == 0:
        return []
    out = [None] * len(items)
    timeouts = 0
    global _GUARDED
    _GUARDED = fn
    with mp.get_context("fork").Pool(procs) as pool:
        it = pool.imap(_guard, items, chunksize=max(1, min(8, len(items) // (procs * 8))))
        for i, r in enumerate(it):
            out[i] = r
            if isinstance(r, dict) and r.get("timeout"):
                timeouts += 1
                if timeouts >= max_timeouts:
                    pool.terminate()
                    break
    # a watchdog hit under load is not yet a non-terminating operation: the FIRST such case is run again, alone, with
    # three times the budget; only if it finishes are the other hits re-examined the same way (so a real endless loop
    # costs one extra long wait, not one per case)
    hit = [i for i, r in enumerate(out) if isinstance(r, dict) and r.get("timeout")]
    if hit:
        global CASE_TIMEOUT
        saved = CASE_TIMEOUT
        CASE_TIMEOUT = saved * 3
        try:
            for i in hit:
                with mp.get_context("fork").Pool(1) as pool1:
                    r = pool1.apply(_guard, (items[i],))
                if isinstance(r, dict) and r.get("timeout"):
                    break
                out[i] = r
        finally:
            CASE_TIMEOUT = saved
    return [r for r in out if r is not None]

# ---------------------------------------------------------------- id-free views of dumps
def parse_dump(line):
    nodes, edges = line.split(" edges=")
    ns = []
    for x in nodes[len("nodes="):].split("|"):
        f = x.split(",")
        ns.append({"space": f[0], "depth": int(f[1]), "exp": f[2] == "1", "skip": f[3] == "1", "flags": f[4]})
    es = []
    if edges != "-":
        for e in edges.split("|"):
            ab, ms = e.split(":")
            a, b = ab.split(">")
            es.append((int(a), int(b), ms.split(";")))
    return ns, es

def abs_view(line):
    ns, es = parse_dump(line)
    out = {}
    for i, x in enumerate(ns):
        out[x["space"]] = {"exp": x["exp"], "skip": x["skip"], "succ": {}}
    for a, b, ms in es:
        out[ns[a]["space"]]["succ"][ns[b]["space"]] = sorted(ms)
    return out

def longest_paths(ns, es):
    """longest path from node 0 following edges (DAG), None if unreachable"""
    n = len(ns)
    adj = {i: [] for i in range(n)}
    for a, b, _ in es:
        adj[a].append(b)
    memo = {}
    best = [None] * n
    best[0] = 0
    # relax in topological order: spaces strictly shrink along edges -> order by number of fixed vars
    order = sorted(range(n), key=lambda i: sum(c != "*" for c in ns[i]["space"]))
    for a in order:
        if best[a] is None:
            continue
        for b in adj[a]:
            if best[b] is None or best[b] < best[a] + 1:
                best[b] = best[a] + 1
    return best

def pred_faithful(line, ref):
    """C04 predicate: every expanded (non-skip) node has exactly the reference successors+motifs,
    unexpanded nodes have none, no space occurs twice"""
    ns, es = parse_dump(line)
    spaces = [x["space"] for x in ns]
    if len(set(spaces)) != len(spaces):
        return "duplicate node space"
    view = abs_view(line)
    for sp, x in view.items():
        if x["skip"]:
            continue
        if not x["exp"]:
            if x["succ"]:
                return f"unexpanded node {sp} has successors"
            continue
        if sp not in ref:
            return f"node {sp} is not a node of the full diagram"
        if x["succ"] != ref[sp]["succ"]:
            return f"expanded node {sp}: successors/motifs differ from the full diagram"
    return None

def is_plain(op):
    return op[0] in ("expand", "bfs", "dfs", "target", "reclaim", "pickle", "cands", "seeds", "sets", "aseeds") or (op[0] == "min" and not op[3]) \
        or (op[0] == "block" and not op[3])

# ---------------------------------------------------------------- generic case worker
class CaseTimeout(BaseException):
    pass

def _alarm(signum, frame):
    raise CaseTimeout()

CASE_TIMEOUT = int(os.environ.get("VERIF_CASE_TIMEOUT", "30"))
BASE_CASE_TIMEOUT = CASE_TIMEOUT

def _case_worker(case):
    """runs the history on code and model, plus a fresh full-BFS reference on the model"""
    import signal
    signal.signal(signal.SIGALRM, _alarm)
    signal.alarm(CASE_TIMEOUT)
    try:
        return _case_worker_inner(case)
    except CaseTimeout:
        return {"case": case, "error": None, "timeout": True, "steps": []}
    finally:
        signal.alarm(0)

def _case_worker_inner(case):
    try:
        rules, config, history = case["rules"], case.get("config") or {}, case["history"]
        sd = make_sd(rules, config)
        nm = var_names(sd)
        tabs = tables_of(sd)
        n = len(nm)
        m = Model(n, tabs, max_motifs=config.get("max_motifs_per_node", 100000))
        m.add("init")
        real = [("init", dump_real(sd), None)]
        nomodel = bool(case.get("nomodel"))
        for op in history:
            r, tape, sd = H.apply_real(sd, op, nm)
            m.add("dump" if nomodel else H.model_cmd(op, tape))
            meta = {"minimal": [sp2s(sd.node_data(i)["space"], nm) for i in sd.minimal_trap_spaces()],
                    "depth": sd.depth(), "len": len(sd)}
            if case.get("attr"):
                meta["attr"] = attr_snapshot(sd, nm)
            if case.get("pipe"):
                meta["pipe"] = [json.loads(json.dumps(x)) for x in H._PIPE]
            if case.get("sym"):
                meta["sym"] = [json.loads(json.dumps(x)) for x in H._SYM]
            real.append((H.sort_ids(r), dump_real(sd), meta))
        if case.get("skiprule_model") and not nomodel:
            m.add("skiprule")            # SkipRule.query_order on the model's final diagram (ideal engine, id order)
        out = m.run()
        skiprule_model = out[-1] if (case.get("skiprule_model") and not nomodel) else None
        # reference (always with an unlimited configuration)
        m2 = Model(n, tabs)
        m2.add("init"); m2.add("op bfs - - -"); m2.add("mintraps " + "*" * n); m2.add("percolate " + "*" * n)
        m2.add("attractors")
        chk_index = []
        if case.get("attr"):
            seen_cmd = {}
            excl_at_cands = {}       # skip node id -> exclusion list in effect when its candidates were computed
            for idx, (_, _, meta) in enumerate(real):
                prev = {it["id"]: it for it in ((real[idx - 1][2] or {}).get("attr", []) if idx > 0 else [])}
                cur_ids = {it["id"] for it in (meta or {}).get("attr", [])}
                for k_ in [k_ for k_ in excl_at_cands if k_ not in cur_ids]:
                    del excl_at_cands[k_]           # caches were discarded
                for item in (meta or {}).get("attr", []):
                    extra = []
                    def exclusions():
                        pns, _ = parse_dump(real[idx - 1][1])
                        excl = []
                        for j, other in enumerate(pns):
                            if j == item["id"] or _subspace_s(item["space"], other["space"]):
                                continue
                            pj = prev.get(j, {})
                            if pj.get("cands") == [] or pj.get("seeds") == []:
                                x = _intersect_s(item["space"], other["space"])
                                if x is not None:
                                    excl.append(x)
                        return excl
                    if item["skip"] and "cands" in item and "cands" not in prev.get(item["id"], {}) and idx > 0:
                        excl_at_cands[item["id"]] = exclusions()
                    if item["skip"] and "seeds" in item and "seeds" not in prev.get(item["id"], {}) and all("*" not in x for x in item["seeds"]) and idx > 0:
                        # the documented exclusion rule of skip nodes, as of the moment the candidates were computed
                        excl = excl_at_cands.get(item["id"])
                        if excl is None:
                            excl = exclusions()
                        av = ";".join(item["motifs"] + excl) or "-"
                        extra.append(("skiprule", f"chk seeds {item['space']} {av} {','.join(item['seeds']) or '-'}"))
                    for kind, cmd in attr_cmds(item) + extra:
                        if cmd is None:
                            chk_index.append((idx, item["id"], kind, None)); continue
                        if cmd not in seen_cmd:
                            seen_cmd[cmd] = m2.add(cmd)
                        chk_index.append((idx, item["id"], kind, seen_cmd[cmd]))
        pipe_index = []
        if case.get("pipe"):
            from props_attr import pipe_checks
            for idx, (_, _, meta) in enumerate(real):
                for rec in (meta or {}).get("pipe", []):
                    for kind, cmd, want in pipe_checks(rec, nm):
                        pipe_index.append((idx, rec["node"], kind, m2.add(cmd), want))
        sym_index = []
        if case.get("sym"):
            for idx, (_, _, meta) in enumerate(real):
                for rec in (meta or {}).get("sym", []):
                    if "error" in rec:
                        sym_index.append((idx, rec, None)); continue
                    piv = sp2s({**rec["pivot"], **rec["space"]}, nm)
                    sym_index.append((idx, rec, m2.add(f"reach {piv}")))
        gidx = None
        if case.get("global_seeds") and real[-1][2] is not None:
            allseeds = [x for item in real[-1][2].get("attr", []) if item["exp"] for x in item.get("seeds", [])]
            if all("*" not in x for x in allseeds):
                gidx = m2.add(f"chk seeds {'*' * n} - {','.join(allseeds) or '-'}")
        ref_out = m2.run()
        global_verdict = None if gidx is None else ref_out[gidx]
        pipe_results = [(idx, node, kind, ref_out[ci], want) for idx, node, kind, ci, want in pipe_index]
        sym_results = []
        for idx, rec, ci in sym_index:
            if ci is None:
                sym_results.append((idx, "recording failed: " + rec["error"])); continue
            reach = set(parse_states(ref_out[ci]))
            av = {sp2s({**a, **rec["space"]}, nm) for a in rec["avoid"]}
            if rec["result"] is None:
                if not (reach & av):
                    sym_results.append((idx, f"node {rec['node']}: symbolic_attractor_test(pivot={rec['pivot']}) returned None but no avoid state is reachable from the pivot"))
            else:
                got = {sp2s({**a, **rec["space"]}, nm) for a in rec["result"]}
                if reach & av:
                    sym_results.append((idx, f"node {rec['node']}: symbolic_attractor_test(pivot={rec['pivot']}) returned a set although the avoid state {sorted(reach & av)[0]} is reachable"))
                elif got != reach:
                    sym_results.append((idx, f"node {rec['node']}: symbolic_attractor_test(pivot={rec['pivot']}) returned {len(got)} states, the reachable set has {len(reach)}"))
        verdicts = [(idx, nid, kind, ("notfullstate" if ci is None else ref_out[ci])) for idx, nid, kind, ci in chk_index]
        steps = []
        for idx, ((r, d, meta), line) in enumerate(zip(real, out)):
            if idx == 0:
                mr, md = "init", line
            elif nomodel:
                mr, md = r, d
            else:
                mr, md = line.split(" ", 1)
                mr = mr[len("result="):]
                tape_verdict = None
                if ";tape=" in mr:                      # contract of the recorded tape, decided by the model
                    mr, tv = mr.split(";tape=")
                    tape_verdict = tuple(int(x) for x in tv.split("/"))
                mr = H.sort_ids(mr)
            steps.append({"real_result": r, "model_result": mr, "real": d, "model": md, "meta": meta})
            if idx and not nomodel and tape_verdict is not None:
                steps[-1]["tape_verdict"] = tape_verdict
        return {"case": case, "steps": steps, "ref_full": ref_out[1].split(" ", 1)[1], "mintraps": parse_spaces(ref_out[2]),
                "root": ref_out[3], "attractors": parse_attractors(ref_out[4]), "verdicts": verdicts, "global_verdict": global_verdict, "pipe_results": pipe_results if case.get("pipe") else [], "sym_results": sym_results, "sym_calls": len(sym_index), "n": n, "error": None, "skiprule_model": skiprule_model}
    except CaseTimeout:
        raise
    except Exception as e:  # harness error: reported, never silently dropped
        return {"case": case, "error": traceback.format_exc()}

def _subspace_s(x, y):
    return all(b == "*" or a == b for a, b in zip(x, y))

def _intersect_s(x, y):
    out = []
    for a, b in zip(x, y):
        if a != "*" and b != "*" and a != b:
            return None
        out.append(a if a != "*" else b)
    return "".join(out)

def vs_states(sd, vs, nm):
    out = []
    for m in vs.items():
        d = {sd.network.get_variable_name(k): int(v) for k, v in m.to_dict().items()}
        out.append("".join(str(d[v]) for v in nm))
    return sorted(out)

def attr_snapshot(sd, nm):
    """cached attractor data of every node, with the successor motifs it has to be correct for"""
    snap = []
    for i in range(len(sd)):
        d = sd.node_data(i)
        c, se, st = d["attractor_candidates"], d["attractor_seeds"], d["attractor_sets"]
        if c is None and se is None and st is None:
            continue
        motifs = []
        if d["expanded"]:
            motifs = [sp2s(sd.edge_stable_motif(i, j), nm) for j in sd.dag.successors(i)]
        item = {"id": i, "space": sp2s(d["space"], nm), "exp": bool(d["expanded"]), "skip": bool(d["skipped"]), "motifs": motifs}
        if c is not None:
            item["cands"] = [sp2s(x, nm) for x in c]
        if se is not None:
            item["seeds"] = [sp2s(x, nm) for x in se]
        if st is not None:
            item["sets"] = [vs_states(sd, x, nm) for x in st]
        snap.append(item)
    return snap

def attr_cmds(item):
    """model commands checking one snapshot item; returns list of (kind, cmd)"""
    av = ";".join(item["motifs"]) or "-"
    sp = item["space"]
    out = []
    full = lambda l: all("*" not in x for x in l)
    if "cands" in item:
        out.append(("cands", f"chk cover {sp} {av} {','.join(item['cands']) or '-'}") if full(item["cands"]) else ("cands", None))
    if "seeds" in item:
        kind = "sound" if item["skip"] else "seeds"
        out.append(("seeds", f"chk {kind} {sp} {av} {','.join(item['seeds']) or '-'}") if full(item["seeds"]) else ("seeds", None))
    if "sets" in item and "seeds" in item and not item["skip"]:
        sets = "/".join(",".join(x) for x in item["sets"]) or "-"
        out.append(("sets", f"chk sets {sp} {av} {','.join(item['seeds']) or '-'} {sets}"))
    return out

def corr_diffs(w, ignore_attr=False):
    """exact model-vs-code comparison of every step"""
    diffs = []
    for idx, st in enumerate(w["steps"]):
        if st["real_result"] != st["model_result"]:
            diffs.append({"step": idx, "field": "result", "real": st["real_result"], "model": st["model_result"]})
            break
        a = canon_dump(st["real"], ignore_attr=ignore_attr)
        b = canon_dump(st["model"], ignore_attr=ignore_attr)
        if a != b:
            f = "nodes" if a["nodes"] != b["nodes"] else "edges"
            diffs.append({"step": idx, "field": f, "real": a[f], "model": b[f]})
            break
    return diffs

def gen_cases(rng, count, nmin, nmax, kinds, max_len, cfg_choices=(100000,), two_var=False):
    cases = []
    if two_var:
        for rules in all_two_var_networks():
            cases.append({"rules": rules, "config": {}, "history": [("bfs", None, None, None)]})
    while len(cases) < count + (256 if two_var else 0):
        rules = gen_network(rng, nmin, nmax)
        n = len(rules.splitlines())
        cfg = {"max_motifs_per_node": rng.choice(cfg_choices)}
        h = H.gen_history(rng, n, max_len=max_len, kinds=kinds)
        cases.append({"rules": rules, "config": cfg, "history": h})
    # structured histories in ADDITION to the uniform ones, from a separate random stream (so that adding them does not change
    # which uniform cases are generated): a fifth more cases
    rng2 = random.Random(rng.random())
    for _ in range(count // 5):
        rules = gen_network(rng2, max(nmin, 3), nmax)
        h = H.gen_template_history(rng2, len(rules.splitlines()), max_len=max_len, kinds=kinds)
        if h is None:
            break
        cases.append({"rules": rules, "config": {"max_motifs_per_node": 100000}, "history": h})
    # ... and modular networks with PERMUTED variable names (the variables of a component are not adjacent) under one complete strategy
    finals = {"bfs": ("bfs", None, None, None), "dfs": ("dfs", None, None, None), "min": ("min", None, None, False), "aseeds": ("aseeds", None),
              "block": ("block", True, None, False, False), "blockplain": ("block", False, None, False, False), "scc": ("scc", True)}
    fk = [k for k in kinds if k in finals]
    for _ in range(count // 5 if fk else 0):
        rules = permute_variables(rng2, modular_network(rng2, rng2.randint(max(nmin, 4), max(nmax, 4))))
        key = rng2.choice(fk)
        op = finals[key]
        if op[0] == "block" and rng2.random() < 0.5:
            # "blockplain" = block expansion WITHOUT source shortcuts (the only block calls C04 quantifies over): the shortcut stays off
            op = ("block", rng2.random() < 0.5, None, (rng2.random() < 0.5) and key == "block", False)
        cases.append({"rules": rules, "config": {"max_motifs_per_node": 100000}, "history": [op]})
    return cases

def _fix_worker(case):
    """clamp node ids to the diagram's size at that point and expand macro ops (seeds_all, ...)
    into explicit per-node ops, by running the history once on the real side"""
    import signal
    signal.signal(signal.SIGALRM, _alarm)
    signal.alarm(CASE_TIMEOUT)
    try:
        sd = make_sd(case["rules"], case.get("config") or {}); nm = var_names(sd)
        out = []
        for op in case["history"]:
            op = list(op)
            if op[0] in ("bfs", "dfs", "min") and op[1] is not None:
                op[1] = op[1] % len(sd)
            if op[0] in ("expand", "skipmin", "cands", "seeds", "sets"):
                op[1] = op[1] % len(sd)
            op = tuple(op)
            if not case.get("nomodel") and op[0] in ("seeds_all", "sets_all", "seeds_every"):
                ids = list(sd.node_ids()) if op[0] == "seeds_every" else list(sd.expanded_ids())
                ops = [("sets", i) if op[0] == "sets_all" else ("seeds", i, bool(op[1]) if len(op) > 1 else False) for i in ids]
            else:
                ops = [op]
            for o in ops:
                _, _, sd = H.apply_real(sd, o, nm)
                out.append(o)
        case = dict(case); case["history"] = out
        return case
    except CaseTimeout:
        return dict(case, fix_timeout=True)
    except Exception:
        return case
    finally:
        signal.alarm(0)

def load_corpus(pid, raw=False):
    """corpus cases of a property; cases of the translator validation (key pysrc_seed) only with raw=True"""
    path = os.path.join(VERIF, "corpus", pid + ".jsonl")
    pre = []
    if os.path.exists(path):
        for l in open(path):
            if l.strip():
                c = json.loads(l)
                if "history" in c:
                    c["history"] = [tuple(o) for o in c["history"]]
                if raw or "pysrc_seed" not in c:
                    pre.append(c)
    return pre

def summarize(ws, nontrivial):
    seen = set(); distinct = 0
    for w in ws:
        if w.get("error"):
            continue
        h = case_hash(w["case"])
        if h in seen:
            continue
        seen.add(h)
        if nontrivial(w):
            distinct += 1
    return distinct

def error_violation(pid, w):
    """an exception while running a case: raised inside the library under test -> a failing input;
    raised inside the harness/model -> reported without one"""
    tb = w["error"]
    last = tb.strip().splitlines()[-1][:100]
    in_lib = "/repo/biobalm/" in tb.split("Traceback")[-1].split("harness/")[-1] or tb.strip().splitlines()[-3].strip().startswith('File "/repo/biobalm/') if len(tb.strip().splitlines()) >= 3 else False
    if in_lib:
        return {"property": pid, "signature": f"{pid}:library-raised:" + last.split(":")[0], "what": "the library raised an unexpected exception: " + last, "case": w["case"], "error": tb, "failing_input": True}
    return {"property": pid, "signature": "harness-error:" + last[:80], "case": w["case"], "error": tb, "failing_input": False}

def harness_errors(ws, pid):
    v = []
    for w in ws:
        if w.get("timeout"):
            v.append({"property": pid, "signature": "C13:operation-did-not-finish", "case": w["case"],
                      "what": f"history did not finish within {CASE_TIMEOUT}s (watchdog)", "failing_input": True})
            w["error"] = "timeout"
        elif w.get("error"):
            v.append(error_violation(pid, w))
    return v

def sample_of(w):
    return {"rules": w["case"]["rules"], "config": w["case"].get("config"), "history": w["case"]["history"],
            "results": [s["real_result"] for s in w["steps"]] if not w.get("error") else None}

def replay(pid, case):
    w = _case_worker(case)
    if w.get("error"):
        return {"holds": False, "error": w["error"]}
    return {"holds": not corr_diffs(w), "diffs": corr_diffs(w), "steps": [(s["real_result"], s["model_result"]) for s in w["steps"]]}

from props_struct import *   # noqa  (registers C02, C03, C04, C15, C16, C20)
from props_attr import *     # noqa  (registers C01, C05, C08, C12, C14)
from props_solver import *   # noqa  (registers C09, C10, C11)
from props_control import *  # noqa  (registers C06, C07)
from props_hist2 import *    # noqa  (registers C13, C15, C16)
from props_meta import *     # noqa  (registers C17, C18, C19)

# translator tie: C06 (is_subspace / intersect), C10 (place names), C20 (space_unique_key) also validate the functions
# generated from the current Python sources against the library
def _with_pysrc(pid):
    inner = REGISTRY[pid]
    def runner(tier, seed):
        import props_pysrc, sys as _sys
        res = inner(tier, seed)
        lc = _sys.modules[__name__].load_corpus
        try:
            pre = [c for c in lc(pid, raw=True) if "pysrc_seed" in c]
        except TypeError:
            pre = []
        only = os.environ.get("VERIF_ONLY_CORPUS") == "1"
        if pre or not only:
            v, st = props_pysrc.pysrc_direct_run(pid, tier, seed, pre=pre)
            res["violations"] = res["violations"] + v
            res.setdefault("extra", {}).update(st)
        return res
    REGISTRY[pid] = runner
for _pid in ("C06", "C10", "C20"):
    _with_pysrc(_pid)
