"""Structure properties decided through the diagram state-machine model (Diagram.v)."""
from __future__ import annotations
import os
from props import *
import props as P

PLAIN = ("expand", "bfs", "dfs", "min", "target")

THOROUGH_SCALE = int(os.environ.get("VERIF_THOROUGH_SCALE", "3"))
def _sizes(tier, q, t):
    """quick / thorough value of a parameter; case COUNTS (thorough value >= 300) are multiplied by VERIF_THOROUGH_SCALE"""
    if tier == "quick":
        return q
    return t * THOROUGH_SCALE if t >= 300 else t

@register("C02")
def run_C02(tier, seed):
    rng = random.Random(seed)
    cases = []
    for rules in all_two_var_networks():
        cases.append({"rules": rules, "config": {}, "history": [("bfs", None, None, None)]})
        if tier == "thorough":
            cases.append({"rules": rules, "config": {}, "history": [("dfs", None, None, None)]})
    count = _sizes(tier, 250, 4000)
    for i in range(count):
        rules = gen_network(rng, 2, 6 if tier == "quick" else 7)
        pre = []
        if rng.random() < 0.5:      # touch stubs first (attractor queries / minimal-space expansion from a stub cache their Petri nets)
            pre = [("expand", 0)] + [rng.choice([("seeds", rng.randint(1, 4), False), ("cands", rng.randint(1, 4), True, True), ("min", rng.randint(1, 4), 2, False)]) for _ in range(rng.randint(1, 3))]
        cases.append({"rules": rules, "config": {}, "history": pre + [(rng.choice(["bfs", "dfs"]), None, None, None)]})
    cases = pmap(P._fix_worker, load_corpus("C02") + cases)
    ws = pmap(P._case_worker, cases)
    viol = harness_errors(ws, "C02")
    stats = {"nodes_total": 0, "shared_child": 0, "multi_motif_edge": 0, "with_sources": 0}
    for w in ws:
        if w.get("error"):
            continue
        st = w["steps"][-1]
        ref = abs_view(w["ref_full"])
        real = abs_view(st["real"])
        ns, es = parse_dump(st["real"])
        stats["nodes_total"] += len(ns)
        indeg = {}
        for a, b, ms in es:
            indeg[b] = indeg.get(b, 0) + 1
            if len(ms) > 1:
                stats["multi_motif_edge"] += 1
        stats["shared_child"] += sum(1 for v in indeg.values() if v > 1)
        # property predicate (id-free): same hierarchy, leaves = minimal trap spaces, root = percolation of top
        msg = None
        if st["real_result"] != "true":
            msg = f"full expansion returned {st['real_result']}"
        elif ns[0]["space"] != w["root"]:
            msg = f"root space {ns[0]['space']} is not the percolation of the whole space {w['root']}"
        elif {k: v["succ"] for k, v in real.items()} != {k: v["succ"] for k, v in ref.items()}:
            msg = "nodes/successors/motifs differ from the hierarchy of percolated trap spaces"
        elif not all(v["exp"] for v in real.values()):
            msg = "a node is left unexpanded after full expansion"
        elif sorted(k for k, v in real.items() if not v["succ"]) != sorted(w["mintraps"]):
            msg = "leaves are not exactly the minimal trap spaces"
        diffs = corr_diffs(w)
        if msg:
            viol.append({"property": "C02", "signature": "C02:" + msg.split(":")[0][:60], "what": msg, "case": w["case"],
                         "real": st["real"], "model": st["model"], "failing_input": True})
        elif diffs:
            viol.append({"property": "C02", "signature": "C02:correspondence:" + diffs[0]["field"], "what": "model and code differ (ids/depth/order) although the id-free hierarchy is right",
                         "case": w["case"], "diffs": diffs, "theorem_or_correspondence": "Diagram.expand_bfs/expand_dfs vs biobalm expand_bfs/expand_dfs", "failing_input": False})
    good = [w for w in ws if not w.get("error")]
    return {"evaluations": len(cases), "distinct_nontrivial": summarize(ws, lambda w: len(parse_dump(w["steps"][-1]["real"])[0]) > 2),
            "rule": "all 256 two-variable networks + random/modular networks (n<=6 quick, <=7 thorough), full BFS or DFS; non-trivial = diagram with more than 2 nodes; distinct by hash of (rules, history)",
            "samples": [sample_of(w) for w in good[300:303]] or [sample_of(w) for w in good[:3]], "violations": viol, "extra": {"stats": stats}, "exhaustive": False}

def _history_run(pid, tier, seed, kinds, count_q, count_t, max_len_q, max_len_t, cfgs, pred, nontrivial, rule, nmax_q=6, nmax_t=7):
    rng = random.Random(seed)
    count = _sizes(tier, count_q, count_t)
    cases = gen_cases(rng, count, 2, _sizes(tier, nmax_q, nmax_t), kinds, _sizes(tier, max_len_q, max_len_t), cfgs)
    pre = load_corpus(pid)
    cases = pmap(P._fix_worker, pre + cases)
    ws = pmap(P._case_worker, cases)
    viol = harness_errors(ws, pid)
    opcount = {}
    for w in ws:
        if w.get("error"):
            continue
        for op, s in zip(w["case"]["history"], w["steps"][1:]):
            opcount[op[0]] = opcount.get(op[0], 0) + 1
            if s["real_result"].startswith("raised"):
                opcount[s["real_result"]] = opcount.get(s["real_result"], 0) + 1
            if s["real_result"] == "false":
                opcount["returned_false"] = opcount.get("returned_false", 0) + 1
        msgs = pred(w)
        diffs = corr_diffs(w)
        for msg in msgs:
            viol.append({"property": pid, "signature": f"{pid}:" + msg["sig"], "what": msg["what"], "case": w["case"], "failing_input": True,
                         "step": msg.get("step")})
        if diffs and not msgs:
            viol.append({"property": pid, "signature": f"{pid}:correspondence:" + diffs[0]["field"], "what": "model and code differ; no property-level failure exhibited on this case",
                         "case": w["case"], "diffs": diffs, "theorem_or_correspondence": "Diagram.step vs biobalm.SuccessionDiagram", "failing_input": False})
    good = [w for w in ws if not w.get("error")]
    return {"evaluations": len(cases), "distinct_nontrivial": summarize(ws, nontrivial), "rule": rule,
            "samples": [sample_of(w) for w in good[:3]], "violations": viol, "extra": {"op_counts": opcount, "corpus_cases": len(pre)}}

def _nontrivial_hist(w):
    return len(parse_dump(w["steps"][-1]["real"])[0]) > 2 and len(w["case"]["history"]) >= 1

@register("C04")
def run_C04(tier, seed):
    def pred(w):
        ref = abs_view(w["ref_full"])
        out = []
        hist = w["case"]["history"]
        if w["case"].get("config", {}).get("max_motifs_per_node", 100000) < 1:
            return out
        for idx, st in enumerate(w["steps"]):
            msg = pred_faithful(st["real"], ref)
            if msg:
                out.append({"sig": msg.split(" ")[0] + "-" + msg.split(" ")[1], "what": msg, "step": idx}); break
        # second clause: an unrestricted BFS / DFS from the root that reports completion, after whatever came before,
        # leaves exactly the full diagram (same node spaces, all expanded, same successors and motifs)
        if not out and hist and all(is_plain(o) for o in hist):
            for idx, op in enumerate(hist):
                if op[0] in ("bfs", "dfs") and list(op[1:]) == [None, None, None] and w["steps"][idx + 1]["real_result"] == "true":
                    view = abs_view(w["steps"][idx + 1]["real"])
                    stubs = sorted(sp for sp, x in view.items() if not x["exp"])
                    if stubs:
                        out.append({"sig": "continuation-leaves-stubs", "what": f"unrestricted {op[0]} after {hist[:idx]} returned True but left unexpanded nodes {stubs[:4]}", "step": idx + 1}); break
                    if set(view) != set(ref):
                        out.append({"sig": "continuation-differs", "what": f"unrestricted {op[0]} after {hist[:idx]}: node spaces differ from the fresh full diagram (missing {sorted(set(ref) - set(view))[:3]}, extra {sorted(set(view) - set(ref))[:3]})", "step": idx + 1}); break
        return out
    rng = random.Random(seed)
    res = _history_run("C04", tier, seed, PLAIN + ("cands", "seeds", "min", "blockplain", "aseeds"), 300, 5000, 6, 10, (100000, 100000, 100000, 2, 3, 5), pred, _nontrivial_hist,
                       "random interleavings of plain expansion ops (expand/bfs/dfs/min/target; random start nodes, level/stack/size limits, max_motifs_per_node in {default,2,3,5}) on random and modular networks; each history is followed by nothing else, the full reference comes from the model; non-trivial = final diagram has more than 2 nodes")
    return res

@register("C03")
def run_C03(tier, seed):
    def pred(w):
        out = []
        hist = w["case"]["history"]
        # completion reported by a strategy started at the root (start None or 0) => minimal trap spaces exact
        for idx, (op, st) in enumerate(zip(hist, w["steps"][1:]), start=1):
            complete = (op[0] in ("bfs", "dfs", "min") and op[1] in (None, 0) and st["real_result"] == "true") or (op[0] == "skiprem" and st["real_result"].startswith("nat:")) \
                       or (op[0] == "aseeds" and st["real_result"] == "true" and idx == 1) or (op[0] == "scc" and st["real_result"] == "true") \
                       or (op[0] == "block" and st["real_result"] == "true")      # block expansion continues below nodes expanded earlier (fix D18)
            if complete and all(is_plain(o) or o[0] in ("skiprem", "min", "block", "aseeds", "scc") for o in hist[:idx]):
                got = sorted(st["meta"]["minimal"])
                if got != sorted(w["mintraps"]):
                    out.append({"sig": "minimal-trap-spaces-" + op[0], "what": f"after {op} (returned {st['real_result']}) minimal_trap_spaces() = {got}, inclusion-minimal trap spaces = {sorted(w['mintraps'])}", "step": idx}); break
        return out
    def gen_kinds():
        return ("expand", "bfs", "dfs", "min", "target", "skip", "skiprem", "block", "aseeds", "scc")
    return _history_run("C03", tier, seed, gen_kinds(), 300, 5000, 5, 8, (100000,), pred, _nontrivial_hist,
                        "random plain histories (with limits and start nodes) containing complete strategies from the root (bfs/dfs/minimal-space with and without skip_ignored) or completed by skip_remaining; predicate compares minimal_trap_spaces() with the brute-force inclusion-minimal trap spaces whenever a root strategy returns True; non-trivial = more than 2 nodes")

@register("C20")
def run_C20(tier, seed):
    def pred(w):
        out = []
        for idx, st in enumerate(w["steps"]):
            ns, es = parse_dump(st["real"])
            lp = longest_paths(ns, es)
            for i, x in enumerate(ns):
                if lp[i] is not None and x["depth"] != lp[i]:
                    out.append({"sig": "depth-not-longest-path", "what": f"node {i} ({x['space']}) has depth {x['depth']} but the longest path from the root has length {lp[i]}", "step": idx})
                    return out
            if st["meta"] and (st["meta"]["len"] != len(ns) or st["meta"]["depth"] != max(x["depth"] for x in ns)):
                out.append({"sig": "len-or-depth", "what": "len()/depth() disagree with the node list", "step": idx}); return out
        return out
    res = _history_run("C20", tier, seed, PLAIN + ("skipmin", "skiprem", "skip", "pickle", "reclaim"), 300, 5000, 6, 10, (100000,), pred, _nontrivial_hist,
                        "random histories over all structural ops; after every op: node depth = longest root path (recomputed), len()/depth() agree with the dump, ids contiguous; plus pairs of diagrams of one network under two plain histories: is_subgraph / is_isomorphic / find_node compared with inclusion / equality of the node-space and edge sets recomputed from the dumps; plus build() + summary(): every brute-force attractor listed exactly once with the label of the node that contains it; non-trivial = more than 2 nodes")
    rng = random.Random(seed + 1)
    pairs = []
    for _ in range(_sizes(tier, 200, 3000)):
        rules = gen_network(rng, 2, 6)
        n = len(rules.splitlines())
        pairs.append({"rules": rules, "rules_b": rules if rng.random() < 0.8 else random_network(rng, n), "ha": H.gen_history(rng, n, max_len=3, kinds=PLAIN), "hb": H.gen_history(rng, n, max_len=4, kinds=PLAIN), "seed": rng.randrange(10**9)})
    # in ADDITION (own random stream): the same network with one more, never-fixed variable that sorts FIRST (all variable indices shift): the two
    # diagrams have the same node spaces and edges by name, so comparisons across different networks must see that (seeded change w12_C20);
    # `ops_only` histories use no target spaces
    rngx = random.Random(seed ^ 0xC20)
    for _ in range(_sizes(tier, 40, 400)):
        rules = gen_network(rngx, 2, 5)
        n = len(rules.splitlines())
        kinds = tuple(k for k in PLAIN if k != "target")
        pairs.append({"rules": rules, "rules_b": "a0extra, !a0extra\n" + rules, "ha": H.gen_history(rngx, n, max_len=3, kinds=kinds),
                      "hb": H.gen_history(rngx, n, max_len=4, kinds=kinds), "seed": rngx.randrange(10**9), "shifted": True})
    ps = pmap(_c20_pair_worker, pairs)
    for w in ps:
        if w.get("error"):
            res["violations"].append(error_violation("C20", w)); continue
        for sig, msg in w["msgs"][:1]:
            res["violations"].append({"property": "C20", "signature": "C20:" + sig, "what": msg, "case": w["case"], "failing_input": True})
    res["evaluations"] += len(pairs)
    res["extra"]["pair_cases"] = len(pairs)
    return res

def _c20_pair_worker(case):
    try:
        rng = random.Random(case["seed"])
        a = make_sd(case["rules"]); b = make_sd(case["rules_b"]); nm = var_names(a)
        for op in case["ha"]:
            op = list(op)
            if op[0] in ("bfs", "dfs", "min", "expand") and op[1] is not None:
                op[1] = op[1] % len(a)
            _, _, a = H.apply_real(a, tuple(op), nm)
        for op in case["hb"]:
            op = list(op)
            if op[0] in ("bfs", "dfs", "min", "expand") and op[1] is not None:
                op[1] = op[1] % len(b)
            _, _, b = H.apply_real(b, tuple(op), var_names(b) if case.get("shifted") else nm)
        msgs = []
        def sets(sd):
            nodes = {tuple(sorted(sd.node_data(i)["space"].items())) for i in sd.node_ids()}
            edges = {(tuple(sorted(sd.node_data(x)["space"].items())), tuple(sorted(sd.node_data(y)["space"].items()))) for x, y in sd.dag.edges()}
            return nodes, edges
        na, ea = sets(a); nb, eb = sets(b)
        for x, y, nx_, ex, ny, ey, nmx in ((a, b, na, ea, nb, eb, "a,b"), (b, a, nb, eb, na, ea, "b,a")):
            want = nx_ <= ny and ex <= ey
            got = x.is_subgraph(y)
            if got != want:
                msgs.append(("is_subgraph", f"is_subgraph({nmx}) = {got}, but node sets included: {nx_ <= ny}, edge sets included: {ex <= ey}")); break
        want = (na == nb and ea == eb)
        if not msgs and a.is_isomorphic(b) != want:
            msgs.append(("is_isomorphic", f"is_isomorphic = {a.is_isomorphic(b)}, but node sets equal: {na == nb}, edge sets equal: {ea == eb}"))
        # find_node: exact match or nothing
        for i in list(a.node_ids())[:5]:
            sp = dict(a.node_data(i)["space"])
            if a.find_node(sp) != i:
                msgs.append(("find_node", f"find_node(space of node {i}) = {a.find_node(sp)}"))
            free = [v for v in nm if v not in sp]
            if free:
                sp2 = dict(sp); sp2[free[0]] = 1
                if tuple(sorted(sp2.items())) not in na and a.find_node(sp2) is not None:
                    msgs.append(("find_node", f"find_node returns {a.find_node(sp2)} for a space that is no node"))
        # summary after build
        c = make_sd(case["rules"]); c.build()
        tabs = tables_of(c); m = Model(len(nm), tabs); m.add("attractors"); attrs = parse_attractors(m.run()[0])
        listed = []
        label = None
        for line in c.summary().splitlines()[4:]:
            if line.startswith("minimal trap space ") or line.startswith("motif avoidance in "):
                label = line[:18]; space = line[19:]
            elif line.startswith("."):
                listed.append((label, space, line.lstrip(".")))
        order = sorted(nm)
        def to_state(s):
            d = dict(zip(order, s)); return "".join(d[v] for v in nm)
        ids = [next((k for k, at in enumerate(attrs) if to_state(s) in at), None) for _, _, s in listed]
        if None in ids or sorted(ids) != list(range(len(attrs))):
            msgs.append(("summary", f"summary() lists attractors {ids} (None = state in no attractor); the network has {len(attrs)} attractors"))
        else:
            for (lab, space, s), k in zip(listed, ids):
                sp_dict = {v: int(ch) for v, ch in zip(order, space) if ch != "*"}
                node = c.find_node(sp_dict)
                is_min = node is not None and c.node_is_minimal(node)
                if (lab.startswith("minimal")) != is_min:
                    msgs.append(("summary-label", f"summary() labels {space} as '{lab}' but node_is_minimal = {is_min}")); break
        return {"case": case, "msgs": msgs, "error": None}
    except Exception:
        return {"case": case, "error": traceback.format_exc()}
