"""Structure properties decided through the diagram state-machine model (Diagram.v)."""
from __future__ import annotations
from props import *
import props as P

PLAIN = ("expand", "bfs", "dfs", "min", "target")

def _sizes(tier, q, t):
    return q if tier == "quick" else t

@register("C02")
def run_C02(tier, seed):
    rng = random.Random(seed)
    cases = []
    for rules in all_two_var_networks():
        cases.append({"rules": rules, "config": {}, "history": [("bfs", None, None, None)]})
        if tier == "thorough":
            cases.append({"rules": rules, "config": {}, "history": [("dfs", None, None, None)]})
    count = _sizes(tier, 250, 4000)
    for i in range(count):
        rules = gen_network(rng, 2, 6 if tier == "quick" else 7)
        cases.append({"rules": rules, "config": {}, "history": [(rng.choice(["bfs", "dfs"]), None, None, None)]})
    ws = pmap(P._case_worker, cases)
    viol = harness_errors(ws, "C02")
    stats = {"nodes_total": 0, "shared_child": 0, "multi_motif_edge": 0, "with_sources": 0}
    for w in ws:
        if w.get("error"):
            continue
        st = w["steps"][-1]
        ref = abs_view(w["ref_full"])
        real = abs_view(st["real"])
        ns, es = parse_dump(st["real"])
        stats["nodes_total"] += len(ns)
        indeg = {}
        for a, b, ms in es:
            indeg[b] = indeg.get(b, 0) + 1
            if len(ms) > 1:
                stats["multi_motif_edge"] += 1
        stats["shared_child"] += sum(1 for v in indeg.values() if v > 1)
        # property predicate (id-free): same hierarchy, leaves = minimal trap spaces, root = percolation of top
        msg = None
        if st["real_result"] != "true":
            msg = f"full expansion returned {st['real_result']}"
        elif ns[0]["space"] != w["root"]:
            msg = f"root space {ns[0]['space']} is not the percolation of the whole space {w['root']}"
        elif {k: v["succ"] for k, v in real.items()} != {k: v["succ"] for k, v in ref.items()}:
            msg = "nodes/successors/motifs differ from the hierarchy of percolated trap spaces"
        elif not all(v["exp"] for v in real.values()):
            msg = "a node is left unexpanded after full expansion"
        elif sorted(k for k, v in real.items() if not v["succ"]) != sorted(w["mintraps"]):
            msg = "leaves are not exactly the minimal trap spaces"
        diffs = corr_diffs(w)
        if msg:
            viol.append({"property": "C02", "signature": "C02:" + msg.split(":")[0][:60], "what": msg, "case": w["case"],
                         "real": st["real"], "model": st["model"], "failing_input": True})
        elif diffs:
            viol.append({"property": "C02", "signature": "C02:correspondence:" + diffs[0]["field"], "what": "model and code differ (ids/depth/order) although the id-free hierarchy is right",
                         "case": w["case"], "diffs": diffs, "theorem_or_correspondence": "Diagram.expand_bfs/expand_dfs vs biobalm expand_bfs/expand_dfs", "failing_input": False})
    good = [w for w in ws if not w.get("error")]
    return {"evaluations": len(cases), "distinct_nontrivial": summarize(ws, lambda w: len(parse_dump(w["steps"][-1]["real"])[0]) > 2),
            "rule": "all 256 two-variable networks + random/modular networks (n<=6 quick, <=7 thorough), full BFS or DFS; non-trivial = diagram with more than 2 nodes; distinct by hash of (rules, history)",
            "samples": [sample_of(w) for w in good[300:303]] or [sample_of(w) for w in good[:3]], "violations": viol, "extra": {"stats": stats}, "exhaustive": False}

def _history_run(pid, tier, seed, kinds, count_q, count_t, max_len_q, max_len_t, cfgs, pred, nontrivial, rule, nmax_q=6, nmax_t=7):
    rng = random.Random(seed)
    count = _sizes(tier, count_q, count_t)
    cases = gen_cases(rng, count, 2, _sizes(tier, nmax_q, nmax_t), kinds, _sizes(tier, max_len_q, max_len_t), cfgs)
    corpus = os.path.join(VERIF, "corpus", pid + ".jsonl")
    pre = []
    if os.path.exists(corpus):
        pre = [json.loads(l) for l in open(corpus) if l.strip()]
        for c in pre:
            c["history"] = [tuple(o) for o in c["history"]]
    cases = pmap(P._fix_worker, cases)
    cases = pre + cases
    ws = pmap(P._case_worker, cases)
    viol = harness_errors(ws, pid)
    opcount = {}
    for w in ws:
        if w.get("error"):
            continue
        for op, s in zip(w["case"]["history"], w["steps"][1:]):
            opcount[op[0]] = opcount.get(op[0], 0) + 1
            if s["real_result"].startswith("raised"):
                opcount[s["real_result"]] = opcount.get(s["real_result"], 0) + 1
            if s["real_result"] == "false":
                opcount["returned_false"] = opcount.get("returned_false", 0) + 1
        msgs = pred(w)
        diffs = corr_diffs(w)
        for msg in msgs:
            viol.append({"property": pid, "signature": f"{pid}:" + msg["sig"], "what": msg["what"], "case": w["case"], "failing_input": True,
                         "step": msg.get("step")})
        if diffs and not msgs:
            viol.append({"property": pid, "signature": f"{pid}:correspondence:" + diffs[0]["field"], "what": "model and code differ; no property-level failure exhibited on this case",
                         "case": w["case"], "diffs": diffs, "theorem_or_correspondence": "Diagram.step vs biobalm.SuccessionDiagram", "failing_input": False})
    good = [w for w in ws if not w.get("error")]
    return {"evaluations": len(cases), "distinct_nontrivial": summarize(ws, nontrivial), "rule": rule,
            "samples": [sample_of(w) for w in good[:3]], "violations": viol, "extra": {"op_counts": opcount, "corpus_cases": len(pre)}}

def _nontrivial_hist(w):
    return len(parse_dump(w["steps"][-1]["real"])[0]) > 2 and len(w["case"]["history"]) >= 1

@register("C04")
def run_C04(tier, seed):
    def pred(w):
        ref = abs_view(w["ref_full"])
        out = []
        hist = w["case"]["history"]
        if w["case"].get("config", {}).get("max_motifs_per_node", 100000) < 1:
            return out
        for idx, st in enumerate(w["steps"]):
            msg = pred_faithful(st["real"], ref)
            if msg:
                out.append({"sig": msg.split(" ")[0] + "-" + msg.split(" ")[1], "what": msg, "step": idx}); break
        return out
    rng = random.Random(seed)
    res = _history_run("C04", tier, seed, PLAIN, 300, 5000, 6, 10, (100000, 100000, 100000, 2, 3, 5), pred, _nontrivial_hist,
                       "random interleavings of plain expansion ops (expand/bfs/dfs/min/target; random start nodes, level/stack/size limits, max_motifs_per_node in {default,2,3,5}) on random and modular networks; each history is followed by nothing else, the full reference comes from the model; non-trivial = final diagram has more than 2 nodes")
    # second clause: continuing with unrestricted BFS gives the fresh diagram
    return res

@register("C03")
def run_C03(tier, seed):
    def pred(w):
        out = []
        hist = w["case"]["history"]
        # completion reported by a strategy started at the root (start None or 0) => minimal trap spaces exact
        for idx, (op, st) in enumerate(zip(hist, w["steps"][1:]), start=1):
            complete = (op[0] in ("bfs", "dfs", "min") and op[1] in (None, 0) and st["real_result"] == "true") or op[0] == "skiprem" and st["real_result"].startswith("nat:")
            if complete and all(is_plain(o) or o[0] in ("skiprem", "min") for o in hist[:idx]):
                got = sorted(st["meta"]["minimal"])
                if got != sorted(w["mintraps"]):
                    out.append({"sig": "minimal-trap-spaces-" + op[0], "what": f"after {op} (returned {st['real_result']}) minimal_trap_spaces() = {got}, inclusion-minimal trap spaces = {sorted(w['mintraps'])}", "step": idx}); break
        return out
    def gen_kinds():
        return ("expand", "bfs", "dfs", "min", "target", "skip", "skiprem")
    return _history_run("C03", tier, seed, gen_kinds(), 300, 5000, 5, 8, (100000,), pred, _nontrivial_hist,
                        "random plain histories (with limits and start nodes) containing complete strategies from the root (bfs/dfs/minimal-space with and without skip_ignored) or completed by skip_remaining; predicate compares minimal_trap_spaces() with the brute-force inclusion-minimal trap spaces whenever a root strategy returns True; non-trivial = more than 2 nodes")

@register("C20")
def run_C20(tier, seed):
    def pred(w):
        out = []
        for idx, st in enumerate(w["steps"]):
            ns, es = parse_dump(st["real"])
            lp = longest_paths(ns, es)
            for i, x in enumerate(ns):
                if lp[i] is not None and x["depth"] != lp[i]:
                    out.append({"sig": "depth-not-longest-path", "what": f"node {i} ({x['space']}) has depth {x['depth']} but the longest path from the root has length {lp[i]}", "step": idx})
                    return out
            if st["meta"] and (st["meta"]["len"] != len(ns) or st["meta"]["depth"] != max(x["depth"] for x in ns)):
                out.append({"sig": "len-or-depth", "what": "len()/depth() disagree with the node list", "step": idx}); return out
        return out
    return _history_run("C20", tier, seed, PLAIN + ("skipmin", "skiprem", "skip", "pickle", "reclaim"), 300, 5000, 6, 10, (100000,), pred, _nontrivial_hist,
                        "random histories over all structural ops; after every op: node depth = longest root path (recomputed), len()/depth() agree with the dump, ids contiguous; non-trivial = more than 2 nodes")
