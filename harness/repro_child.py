"""child process of the C19 check: runs each case, an unrelated case, and the case again."""
import sys, json
from core import *
import history as H
from biobalm.control import succession_control

def run_case(c):
    sd = make_sd(c["rules"], c.get("config")); nm = var_names(sd)
    st = c["strategy"]
    try:
        if st == "build": sd.build()
        elif st == "bfs": sd.expand_bfs()
        elif st == "dfs": sd.expand_dfs()
        elif st == "block": sd.expand_block()
        elif st == "scc": sd.expand_scc()
        elif st == "aseeds": sd.expand_attractor_seeds()
        else: sd.expand_minimal_spaces()
        seeds = {i: [sp2s(s, nm) for s in sd.node_attractor_seeds(i, compute=True)] for i in list(sd.expanded_ids())}
        dump = dump_real(sd)
        ivs = succession_control(sd, s2sp(c["target"], nm), strategy=c["control"], successful_only=False)
        ctl = [([sp2s(m, nm) for m in iv.succession], [[sp2s(d, nm) for d in step] for step in iv.control], iv.successful) for iv in ivs]
        return {"dump": dump, "seeds": seeds, "control": ctl, "after": dump_real(sd)}
    except Exception as e:
        return {"error": type(e).__name__ + ": " + str(e)[:200]}

cases = json.loads(sys.stdin.read())
out = []
for i, c in enumerate(cases):
    first = run_case(c)
    run_case(cases[(i + 1) % len(cases)])
    again = run_case(c)
    out.append({"first": first, "again": again})
print(json.dumps(out, default=str))
