"""C06 / C07: succession control."""
from __future__ import annotations
from props import *
import props as P
from props_struct import _sizes
from props_solver import rand_space, subspace_s
from biobalm.control import succession_control

def merge_s(x, y):     # y wins
    return "".join(b if b != "*" else a for a, b in zip(x, y))

def canon_interventions(ivs, nm):
    out = []
    for iv in ivs:
        succ = tuple(sp2s(m, nm) for m in iv.succession)
        ctl = tuple(tuple(sorted(sp2s(d, nm) for d in step)) for step in iv.control)
        out.append((succ, ctl, bool(iv.successful)))
    return sorted(out)

def parse_model_interventions(line):
    if line == "-":
        return []
    out = []
    for item in line.split(" "):
        s, c, ok = item.split("!")
        succ = () if s == "-" else tuple(s.split(";"))
        ctl = () if c == "-" else tuple((() if step == "~" else tuple(sorted(step.split(";")))) for step in c.split("/"))
        out.append((succ, ctl, ok == "1"))
    return sorted(out)

def _control_worker(case):
    try:
        rng = random.Random(case["seed"])
        sd = make_sd(case["rules"]); nm = var_names(sd); n = len(nm); tabs = tables_of(sd)
        hist = case.get("history") or []
        tapes = []
        for op in hist:
            _, tape, sd = H.apply_real(sd, tuple(op), nm)
            tapes.append(tape)
        target = case["target"]
        strategy = case["strategy"]; maxd = case["maxd"]; forb = case["forbidden"]; skipff = case.get("skipff", False)
        ivs = succession_control(sd, s2sp(target, nm), strategy=strategy, max_drivers_per_succession_node=maxd,
                                 forbidden_drivers=set(nm[i] for i in forb), successful_only=case.get("successful_only", False),
                                 skip_feedforward_successions=skipff)
        real = canon_interventions(ivs, nm)
        m = Model(n, tabs)
        msgs = []
        i_model = None
        if True:
            m.add("init")
            for op, tape in zip(hist, tapes):
                m.add(H.model_cmd(tuple(op), tape))
            m.add(f"op target {target} -")
            i_model = m.add(f"control {target} {strategy} {opt(maxd)} {','.join(map(str, forb)) or '-'} {int(bool(skipff))}")
        # C06: semantic checks on every successful intervention of the real output
        sem = []
        i_min = m.add("mintraps " + "*" * n)
        for (succ, ctl, ok) in real:
            if not ok:
                continue
            prev = "*" * n
            i_p0 = m.add(f"percolate {prev}")
            chain = []
            for k, ts in enumerate(succ):
                chain.append((k, ts))
            sem.append({"succ": succ, "ctl": ctl, "cmds": []})
        out0 = m.run()      # first pass: model interventions + minimal trap spaces
        mintraps = parse_spaces(out0[i_min])
        # second pass: walk the chains (needs percolation results step by step)
        m2 = Model(n, tabs)
        plan = []
        for (succ, ctl, ok) in real:
            if not ok:
                continue
            assume = "*" * n
            for k, ts in enumerate(succ):
                full = merge_s(ts, assume)           # ts | assume_fixed
                plan.append(("perc", succ, k, m2.add(f"percolate {full}"), assume, ts, ctl[k]))
                # we need the percolated space to continue: compute eagerly with a tiny helper model call
                mm = Model(n, tabs); mm.add(f"percolate {full}"); nxt = mm.run()[0]
                plan.append(("trap", succ, k, m2.add(f"istrap {nxt}"), assume, nxt, None))
                for drv in ctl[k]:
                    plan.append(("ldoi", succ, k, m2.add(f"percolate {merge_s(drv, assume)}"), assume, ts, drv))
                    if n <= 6:
                        plan.append(("forced", succ, k, m2.add(f"forced {drv} {assume} {merge_s(assume, ts)}"), assume, ts, drv))
                assume = merge_s(assume, nxt)
            plan.append(("final", succ, len(succ), None, assume, None, None))
        out2 = m2.run() if m2.cmds else []
        for kind, succ, k, ci, assume, ts, drv in plan:
            if kind == "trap" and out2[ci] != "1":
                msgs.append(("C06", f"succession {succ}: step {k} does not lead to a trap space ({ts})"))
            elif kind == "trap" and not subspace_s(ts, assume):
                msgs.append(("C06", f"succession {succ}: step {k} space {ts} is not nested in the previous one {assume}"))
            elif kind == "ldoi" and not subspace_s(out2[ci], ts):
                msgs.append(("C06", f"succession {succ}: override {drv} at step {k}: its logical domain of influence {out2[ci]} does not contain the motif {ts}"))
            elif kind == "forced" and out2[ci] != "1":
                msgs.append(("C06", f"succession {succ}: override {drv} at step {k} does not force the dynamics from {assume} into the motif {ts}: an attractor of the overridden network reachable from the previous trap space lacks the motif's values"))
            elif kind == "final":
                if P._intersect_s(assume, target) is None:
                    msgs.append(("C06", f"succession {succ}: final trap space {assume} is inconsistent with the target {target}"))
                bad = [t for t in mintraps if subspace_s(t, assume) and not subspace_s(t, target)]
                if bad:
                    msgs.append(("C06", f"succession {succ}: final trap space {assume} contains the minimal trap space {bad[0]} outside the target {target}"))
        if i_model is not None:
            model = parse_model_interventions(out0[i_model])
            mreal = real if not case.get("successful_only") else real
            mm_ = model if not case.get("successful_only") else [x for x in model if x[2]]
            if mreal != mm_:
                a = [x for x in mreal if x not in mm_][:2]; b = [x for x in mm_ if x not in mreal][:2]
                msgs.append(("C07" if not hist else "C06corr", f"interventions differ from the model: only in code {a}; only in model {b}"))
        return {"case": case, "msgs": msgs, "n": n, "interventions": len(real), "successful": sum(1 for x in real if x[2]), "error": None}
    except Exception:
        return {"case": case, "error": traceback.format_exc()}

def _gen_control_cases(rng, count, nmax, with_history, modular=False):
    cases = []
    while len(cases) < count:
        rules = modular_network(rng, rng.randint(6, nmax)) if modular else gen_network(rng, 2, nmax)
        n = len(rules.splitlines())
        # targets: random subspaces, biased towards spaces around minimal trap spaces
        target = rand_space(rng, n, rng.choice([0.3, 0.6, 0.9]))
        if "*" * n == target:
            continue
        c = {"rules": rules, "seed": rng.randrange(10**9), "target": target, "strategy": rng.choice(["internal", "all"]),
             "maxd": rng.choice([None, None, 0, 1, 2]), "forbidden": [i for i in range(n) if rng.random() < 0.15],
             "successful_only": rng.random() < 0.3, "skipff": with_history and rng.random() < 0.3}
        if with_history and rng.random() < 0.7:
            c["history"] = [list(o) for o in H.gen_history(rng, n, max_len=4, kinds=("expand", "bfs", "dfs", "min", "target", "skipmin", "skiprem", "skip"))]
        cases.append(c)
    return cases

def _run_control(pid, tier, seed, with_history, rule):
    rng = random.Random(seed)
    cases = load_corpus(pid) + _gen_control_cases(rng, _sizes(tier, 300, 4000), _sizes(tier, 5, 6), with_history)
    if with_history:     # deeper diagrams (structural + LDOI checks only above 6 variables)
        cases += _gen_control_cases(rng, _sizes(tier, 60, 600), 8, True, modular=True)
    if with_history:
        fixed = pmap(P._fix_worker, [{"rules": c["rules"], "config": {}, "history": [tuple(o) for o in c.get("history", [])]} for c in cases])
        for c, f in zip(cases, fixed):
            c["history"] = [list(o) for o in f["history"]]
            if f.get("fix_timeout"): c["fix_timeout"] = True
    ws = pmap(_control_worker, cases)
    viol = []
    tot = succ = 0
    for w in ws:
        if w.get("error"):
            viol.append(error_violation(pid, w)); continue
        tot += w["interventions"]; succ += w["successful"]
        hit = False
        for p_, msg in w["msgs"]:
            if p_ == pid:
                viol.append({"property": pid, "signature": f"{pid}:" + msg.split(":")[-1][:40] if pid == "C06" else f"{pid}:interventions-differ", "what": msg, "case": w["case"], "failing_input": True})
                hit = True
                break
        if not hit and pid == "C06":
            for p_, msg in w["msgs"]:
                if p_ == "C06corr":
                    viol.append({"property": pid, "signature": "C06:correspondence:interventions", "what": msg, "case": w["case"], "failing_input": False,
                                 "theorem_or_correspondence": "Control.succession_control on the model diagram after the same history vs biobalm.control.succession_control"})
                    break
    good = [w for w in ws if not w.get("error")]
    return {"evaluations": len(cases), "distinct_nontrivial": len({case_hash(w["case"]) for w in good if w["successful"] > 0}), "rule": rule,
            "samples": [{k: v for k, v in w["case"].items()} for w in good if w["interventions"] > 0][:3], "violations": viol,
            "extra": {"interventions": tot, "successful": succ}}

@register("C06")
def run_C06(tier, seed):
    return _run_control("C06", tier, seed, True,
        "random networks and non-empty targets (trap space or not), both strategies, driver-size bound in {None,0,1,2}, random forbidden sets, skip_feedforward on/off, on fresh diagrams and on diagrams pre-processed by a random history (partial expansion, skip nodes); every intervention reported successful is checked semantically: nested chain of trap spaces, LDOI of each override contains the motif (model percolation), and the extracted forced_b decides by brute force that every attractor of the OVERRIDDEN network reachable from the previous trap space has the motif's values; final trap space consistent with the target and all minimal trap spaces inside it inside the target; non-trivial = at least one successful intervention")

@register("C07")
def run_C07(tier, seed):
    return _run_control("C07", tier, seed, False,
        "fresh diagrams: the complete list of interventions (successions, per-step override sets, successful flag; successful_only on/off) is compared, as a canonical multiset, with the model's succession_control run on the model's target-directed expansion; non-trivial = at least one successful intervention")
