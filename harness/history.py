"""Run an op history on the real SuccessionDiagram and on the extracted model; diff."""
from __future__ import annotations
import pickle, random, traceback
from core import *
import biobalm.succession_diagram as _sdm
import biobalm._sd_algorithms.expand_minimal_spaces as _ems
import biobalm.trappist_core as _tc

# ---- tape recording: minimal-trap enumeration order (problem="min") ------------------
_TAPE = []
_orig_trappist = _tc.trappist
def _rec_trappist(*a, **kw):
    res = _orig_trappist(*a, **kw)
    problem = kw.get("problem", a[1] if len(a) > 1 else "min")
    if problem == "min":
        _TAPE.append([dict(x) for x in res])
    return res
_sdm.trappist = _rec_trappist
_ems.trappist = _rec_trappist

_FALLBACK = []
_orig_fallback = _sdm.symbolic_attractor_fallback
def _rec_fallback(*a, **kw):
    _FALLBACK.append(1)
    return _orig_fallback(*a, **kw)
_sdm.symbolic_attractor_fallback = _rec_fallback

# ---- candidate pipeline recording (C08): every solver call made by compute_attractor_candidates ----
import biobalm._sd_attractors.attractor_candidates as _ac
_PIPE = []          # one record per compute_attractor_candidates call during the current op
_orig_cac = _sdm.compute_attractor_candidates
_orig_heur = _ac.make_heuristic_retained_set
_orig_cfp = _ac.compute_fixed_point_reduced_STG
def _rec_cac(sd, node_id, greedy, simulation, pint):
    rec = {"node": node_id, "greedy": bool(greedy), "simulation": bool(simulation), "space": dict(sd.node_data(node_id)["space"]),
           "calls": [], "nfvs": None, "rinit": None, "avoid": None, "outcome": None, "cfg": dict(sd.config)}
    _PIPE.append(rec)
    try:
        res = _orig_cac(sd, node_id, greedy, simulation, pint)
        rec["outcome"] = [dict(x) for x in res]
        return res
    except RuntimeError:
        rec["outcome"] = "raised"
        raise
def _rec_heur(graph, nfvs, avoid_dnf):
    r = _orig_heur(graph, nfvs, avoid_dnf)
    if _PIPE:
        _PIPE[-1]["nfvs"] = list(nfvs); _PIPE[-1]["avoid"] = [dict(a) for a in avoid_dnf]; _PIPE[-1]["rinit"] = list(r.items())
    return r
def _rec_cfp(petri_net, retained_set={}, ensure_subspace={}, avoid_subspaces=[], solution_limit=None):
    res = _orig_cfp(petri_net, retained_set, ensure_subspace=ensure_subspace, avoid_subspaces=avoid_subspaces, solution_limit=solution_limit)
    if _PIPE:
        _PIPE[-1]["calls"].append({"ret": list(retained_set.items()), "limit": solution_limit, "avoid": [dict(a) for a in avoid_subspaces], "res": [dict(x) for x in res]})
    return res
_sdm.compute_attractor_candidates = _rec_cac
_ac.make_heuristic_retained_set = _rec_heur
_ac.compute_fixed_point_reduced_STG = _rec_cfp

# ---- symbolic_attractor_test I/O recording (C12) ----
import biobalm._sd_attractors.attractor_symbolic as _as
_SYM = []
_orig_sat = _as.symbolic_attractor_test
def _vs_states(graph, cset):
    out = []
    for m in cset.vertices().items():
        out.append({graph.get_network_variable_name(k): int(v) for k, v in m.to_dict().items()})
    return out
def _rec_sat(sd, node_id, graph, pivot, avoid_set):
    res = _orig_sat(sd, node_id, graph, pivot, avoid_set)
    try:
        if graph.network_variable_count() <= 7:
            _SYM.append({"node": node_id, "space": dict(sd.node_data(node_id)["space"]), "pivot": dict(pivot),
                         "avoid": _vs_states(graph, avoid_set), "result": None if res is None else _vs_states(graph, res)})
    except Exception as e:      # recording must never disturb the library
        _SYM.append({"error": repr(e)})
    return res
_as.symbolic_attractor_test = _rec_sat

# ---- block expansion: record the is_clean decisions (candidate queries on block sub-diagrams) ----
_BLOCK = {"main": None, "flags": []}
_orig_nac = _sdm.SuccessionDiagram.node_attractor_candidates
_orig_nas = _sdm.SuccessionDiagram.node_attractor_seeds
_SCC = {"main": None, "flags": []}
def _rec_nac(self, node_id, compute=False, *a, **kw):
    if _SCC["main"] is not None and id(self) != _SCC["main"] and not _SCC.get("inner"):
        # expand_scc: candidate queries on sub-diagrams made by attach_scc_subdiagram (cached answers included)
        _SCC["inner"] = True
        try:
            r = _orig_nac(self, node_id, compute, *a, **kw)
            _SCC["flags"].append("1" if len(r) == 0 else "0")
            return r
        except RuntimeError:
            _SCC["flags"].append("r")
            raise
        finally:
            _SCC["inner"] = False
    if _BLOCK["main"] is not None and id(self) != _BLOCK["main"]:
        try:
            r = _orig_nac(self, node_id, compute, *a, **kw)
        except RuntimeError:
            if not _BLOCK.get("inner"):
                _BLOCK["flags"].append(False)
            raise
        if not _BLOCK.get("inner"):
            _BLOCK["flags"].append(len(r) == 0)
        return r
    return _orig_nac(self, node_id, compute, *a, **kw)
def _rec_nas(self, node_id, compute=False, *a, **kw):
    if _BLOCK["main"] is not None and id(self) != _BLOCK["main"]:
        _BLOCK["inner"] = True
        try:
            r = _orig_nas(self, node_id, compute, *a, **kw)
            _BLOCK["flags"].append(len(r) == 0)
            return r
        except RuntimeError:
            _BLOCK["flags"].append(False)
            raise
        finally:
            _BLOCK["inner"] = False
    return _orig_nas(self, node_id, compute, *a, **kw)
_sdm.SuccessionDiagram.node_attractor_candidates = _rec_nac
_sdm.SuccessionDiagram.node_attractor_seeds = _rec_nas

# ---- attractor-seed expansion: record the NFVS used for every examined successor ----
_NFVS = {"on": False, "log": []}
_orig_nfvs = _sdm.SuccessionDiagram.node_percolated_nfvs
def _rec_nfvs(self, node_id, compute=False):
    r = _orig_nfvs(self, node_id, compute)
    if _NFVS["on"]:
        _NFVS["log"].append(list(r))
    return r
_sdm.SuccessionDiagram.node_percolated_nfvs = _rec_nfvs

def classify_exc(e):
    if isinstance(e, RuntimeError):
        return "raised:motiflimit" if "stable motifs" in str(e) else "raised:runtime"
    if isinstance(e, KeyError):
        return "raised:key"
    if isinstance(e, (AssertionError, ValueError, IndexError)):
        return "raised:assert"
    return "raised:" + type(e).__name__

def apply_real(sd, op, nm):
    """returns (result string, tape string or None, sd (pickle may replace it))"""
    _TAPE.clear()
    _PIPE.clear()
    _SYM.clear()
    k = op[0]
    tape = None
    try:
        if k == "expand":
            i = op[1]
            if i >= len(sd):
                return "raised:key", None, sd
            r = "ids:" + (",".join(map(str, sorted(sd.node_successors(i, compute=True)))) or "-")
        elif k == "bfs":
            r = str(sd.expand_bfs(op[1], op[2], op[3])).lower()
        elif k == "dfs":
            r = str(sd.expand_dfs(op[1], op[2], op[3])).lower()
        elif k == "min":
            start = 0 if op[1] is None else op[1]
            sp = dict(sd.node_data(start)["space"])
            try:
                r = str(sd.expand_minimal_spaces(op[1], op[2], op[3])).lower()
            finally:
                if _TAPE:
                    tape = ";".join(sp2s(sp | x, nm) for x in _TAPE[0]) or "-"
        elif k == "target":
            r = str(sd.expand_to_target(s2sp(op[1], nm), op[2])).lower()
        elif k == "skipmin":
            i = op[1]
            if i >= len(sd):
                return "raised:key", None, sd
            sp = dict(sd.node_data(i)["space"])
            try:
                r = str(sd.skip_to_minimal(i)).lower()
            finally:
                if _TAPE:
                    tape = ";".join(sp2s(sp | x, nm) for x in _TAPE[0]) or "-"
        elif k == "skiprem":
            sp = dict(sd.node_data(0)["space"])
            try:
                r = "nat:" + str(sd.skip_remaining())
            finally:
                if _TAPE:
                    tape = ";".join(sp2s(sp | x, nm) for x in _TAPE[0]) or "-"
        elif k in ("cands", "seeds", "sets"):
            i = op[1]
            if i >= len(sd):
                return "raised:key", None, sd
            nd = sd.node_data(i)
            pre = (nd["attractor_candidates"] is None, nd["attractor_seeds"] is None, nd["attractor_sets"] is None)
            _FALLBACK.clear()
            raised = False
            try:
                if k == "cands":
                    sd.node_attractor_candidates(i, compute=True, greedy_asp_minification=op[2], simulation_minification=op[3])
                elif k == "seeds":
                    sd.node_attractor_seeds(i, compute=True, symbolic_fallback=op[2])
                else:
                    sd.node_attractor_sets(i, compute=True)
                r = "unit"
            except RuntimeError:
                raised = True; r = "raised:runtime"
            c = nd["attractor_candidates"]
            oc = "r" if (raised or _FALLBACK) else ("-" if c is None else str(len(c)))
            sknown = nd["attractor_sets"] is not None
            os_ = "-" if nd["attractor_seeds"] is None else (str(len(nd["attractor_seeds"])) + ("s" if sknown else ""))
            tape = (oc, os_)
        elif k == "block":
            _BLOCK["main"] = id(sd); _BLOCK["flags"] = []
            try:
                r = str(sd.expand_block(find_motif_avoidant_attractors=op[1], size_limit=op[2], optimize_source_nodes=op[3], exact_attractor_detection=op[4])).lower()
            finally:
                _BLOCK["main"] = None
                tape = "".join("1" if f else "0" for f in _BLOCK["flags"]) or "-"
        elif k == "scc":
            _SCC["main"] = id(sd); _SCC["flags"] = []
            try:
                r = str(sd.expand_scc(find_motif_avoidant_attractors=op[1])).lower()
            finally:
                _SCC["main"] = None
                tape = "".join(_SCC["flags"]) or "-"
        elif k == "aseeds":
            sp = dict(sd.node_data(0)["space"])
            _NFVS["on"] = True; _NFVS["log"] = []
            try:
                r = str(sd.expand_attractor_seeds(size_limit=op[1])).lower()
            finally:
                _NFVS["on"] = False
                mt = (";".join(sp2s(sp | x, nm) for x in _TAPE[0]) or "-") if _TAPE else "-"
                nt = "/".join((",".join(str(nm.index(v)) for v in l) or "~") for l in _NFVS["log"]) or "-"
                tape = (mt, nt)
        elif k == "build":
            sd.build(); r = "unit"
        elif k == "seeds_all":
            for i in list(sd.expanded_ids()):
                sd.node_attractor_seeds(i, compute=True)
            r = "unit"
        elif k == "sets_all":
            for i in list(sd.expanded_ids()):
                sd.node_attractor_sets(i, compute=True)
            r = "unit"
        elif k == "seeds_every":
            for i in list(sd.node_ids()):
                sd.node_attractor_seeds(i, compute=True, symbolic_fallback=bool(op[1]) if len(op) > 1 else False)
            r = "unit"
        elif k == "reclaim":
            sd.reclaim_node_data(); r = "unit"
        elif k == "pickle":
            sd = pickle.loads(pickle.dumps(sd)); r = "unit"
        else:
            raise ValueError(k)
    except Exception as e:  # noqa
        r = classify_exc(e)
    return r, tape, sd

def model_cmd(op, tape):
    k = op[0]
    if k == "expand":
        return f"op expand {op[1]}"
    if k == "bfs":
        return f"op bfs {opt(op[1])} {opt(op[2])} {opt(op[3])}"
    if k == "dfs":
        return f"op dfs {opt(op[1])} {opt(op[2])} {opt(op[3])}"
    if k == "min":
        return f"op min {opt(op[1])} {opt(op[2])} {int(op[3])} {tape or '-'}"
    if k == "target":
        return f"op target {op[1]} {opt(op[2])}"
    if k == "skipmin":
        return f"op skipmin {op[1]} {tape or '-'}"
    if k == "skiprem":
        return f"op skiprem {tape or '-'}"
    if k == "aseeds":
        return f"aseeds {opt(op[1])} {tape[0] if tape else '-'} {tape[1] if tape else '-'}"
    if k == "scc":
        return f"scc {int(op[1])} {tape or '-'}"
    if k == "block":
        return f"block {int(op[1])} {int(op[3])} {opt(op[2])} {tape or '-'}"
    if k == "cands":
        return f"op cands {op[1]} {tape[0] if tape else '-'}"
    if k == "seeds":
        return f"op seeds {op[1]} {int(op[2])} {tape[0] if tape else '-'} {tape[1] if tape else '-'}"
    if k == "sets":
        return f"op sets {op[1]} {tape[0] if tape else '-'} {tape[1] if tape else '-'}"
    return f"op {k}"

def sort_ids(r):
    if r.startswith("ids:") and r != "ids:-":
        return "ids:" + ",".join(map(str, sorted(int(x) for x in r[4:].split(","))))
    return r

def run_case(case):
    """case: {rules, config, history}.  Returns dict(ok, diffs, steps) ; never raises."""
    rules, config, history = case["rules"], case.get("config") or {}, case["history"]
    sd = make_sd(rules, config)
    nm = var_names(sd)
    tabs = tables_of(sd)
    m = Model(len(nm), tabs, max_motifs=config.get("max_motifs_per_node", 100000))
    m.add("init")
    real = [("init", dump_real(sd))]
    for op in history:
        r, tape, sd = apply_real(sd, op, nm)
        m.add(model_cmd(op, tape))
        real.append((r, dump_real(sd)))
    out = m.run()
    diffs = []
    steps = []
    for idx, ((r, d), line) in enumerate(zip(real, out)):
        if idx == 0:
            mr, md = "init", line
        else:
            mr, md = line.split(" ", 1)
            mr = mr[len("result="):].split(";tape=")[0]
        rr = sort_ids(r); mr = sort_ids(mr)
        if mr == "unit" and rr.startswith("ids:"):
            pass
        cd_r = canon_dump(d, ignore_attr=True); cd_m = canon_dump(md, ignore_attr=True)
        step = {"op": history[idx - 1] if idx else "init", "real_result": rr, "model_result": mr}
        if rr != mr:
            diffs.append({"step": idx, "field": "result", "real": rr, "model": mr})
        if cd_r != cd_m:
            # name first differing field
            f = "nodes" if cd_r["nodes"] != cd_m["nodes"] else "edges"
            diffs.append({"step": idx, "field": f, "real": cd_r[f], "model": cd_m[f]})
        steps.append(step)
        if diffs:
            break
    return {"ok": not diffs, "diffs": diffs, "steps": steps, "final_real": real[-1][1], "n": len(nm),
            "sd": None}

# ---- history generation -----------------------------------------------------------
def gen_template_history(rng, n, max_len=6, kinds=("expand", "bfs", "dfs", "min", "target")):
    """structured history: expand the root, then a few children in an order that is NOT the discovery order (later child first),
    then one unrestricted strategy from the root.  Seeded change w6_C02 (BFS with an id watermark instead of a visited set) needs
    exactly this and uniform op sequences rarely build it.  Returns None if the kinds do not allow it."""
    finals = [k for k in kinds if k in ("bfs", "dfs", "min", "aseeds", "blockplain")]
    if "expand" not in kinds or max_len < 3 or not finals:
        return None
    h = [("expand", 0)]
    picks = sorted(rng.sample(range(1, 7), rng.randint(1, min(3, max_len - 2))), reverse=rng.random() < 0.8)
    h += [("expand", k) for k in picks]
    f = rng.choice(finals)
    h.append({"bfs": ("bfs", None, None, None), "dfs": ("dfs", None, None, None), "min": ("min", None, None, False),
              "aseeds": ("aseeds", None), "blockplain": ("block", True, None, False, False)}[f])
    return h

def gen_history(rng, n, max_len=6, kinds=("expand", "bfs", "dfs", "min", "target")):
    h = []
    for _ in range(rng.randint(1, max_len)):
        k = rng.choice(kinds)
        lim = lambda: rng.choice([None, None, 1, 2, 3, 5, 8])
        node = lambda: rng.choice([None, None, 0, 1, 2, 3, 5])
        if k == "expand":
            h.append(("expand", rng.randint(0, 6)))
        elif k == "bfs":
            h.append(("bfs", node(), rng.choice([None, None, 0, 1, 2]), lim()))
        elif k == "dfs":
            h.append(("dfs", node(), rng.choice([None, None, 0, 1, 2, 3]), lim()))
        elif k == "min":
            h.append(("min", node(), lim(), rng.random() < 0.3 if "skip" in kinds else False))
        elif k == "target":
            t = "".join(rng.choice("01**") for _ in range(n))
            h.append(("target", t, lim()))
        elif k == "skipmin":
            h.append(("skipmin", rng.randint(0, 6)))
        elif k == "skiprem":
            h.append(("skiprem",))
        elif k in ("reclaim", "pickle"):
            h.append((k,))
        elif k == "scc":
            h.append(("scc", rng.random() < 0.7))
        elif k == "aseeds":
            h.append(("aseeds", lim()))
        elif k == "block":
            h.append(("block", rng.random() < 0.7, lim(), rng.random() < 0.6, rng.random() < 0.15))
        elif k == "blockplain":       # block expansion without source shortcuts (a "plain" expansion call)
            h.append(("block", rng.random() < 0.7, lim(), False, False))
        elif k == "cands":
            h.append(("cands", rng.randint(0, 6), rng.random() < 0.7, rng.random() < 0.7))
        elif k == "seeds":
            h.append(("seeds", rng.randint(0, 6), rng.random() < 0.3))
        elif k == "sets":
            h.append(("sets", rng.randint(0, 6)))
    return h

def fix_history(h, rules):
    """make start nodes valid by running on the real side and clamping ids (keeps most ops applicable)"""
    sd = make_sd(rules)
    nm = var_names(sd)
    out = []
    for op in h:
        op = list(op)
        if op[0] in ("bfs", "dfs", "min") and op[1] is not None:
            op[1] = op[1] % len(sd)
        if op[0] in ("expand", "skipmin"):
            op[1] = op[1] % len(sd)
        op = tuple(op)
        _, _, sd = apply_real(sd, op, nm)
        out.append(op)
    return out
