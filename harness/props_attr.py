"""Attractor properties: the implementation's candidates / seeds / sets are judged by the
extracted predicates of Checks.v against the brute-force attractors (AttractorFacts.v)."""
from __future__ import annotations
from props import *
import props as P
from props_struct import _sizes, _nontrivial_hist

ATTR_KINDS = ("expand", "bfs", "dfs", "min", "target", "cands", "seeds", "sets", "seeds", "cands", "reclaim", "pickle", "block")
SKIP_KINDS = ATTR_KINDS + ("skipmin", "skiprem", "skip", "scc")

def verdict_violations(pid, w, kinds=("cands", "seeds", "sets"), skip_ok=True):
    out = []
    for idx, nid, kind, v in w.get("verdicts", []):
        if kind in kinds and v != "ok":
            st = w["steps"][idx]
            item = next(x for x in st["meta"]["attr"] if x["id"] == nid)
            if kind == "cands" and item["skip"]:
                continue      # candidates of skip nodes are reduced by the exclusion rule; judged through 'skiprule'
            what = {"cands": "cached candidates do not cover", "seeds": "cached seeds are not one-to-one with", "sets": "cached sets are not",
                    "skiprule": "seeds of the skip node differ from the default method's documented exclusion rule applied to"}[kind]
            out.append({"sig": f"{kind}-{v.split(':')[0]}" + ("-skipnode" if item["skip"] else ""),
                        "what": f"step {idx}: node {nid} ({item['space']}, expanded={item['exp']}, skip={item['skip']}): {what} the attractors of the node w.r.t. its current successors: {v}; item={item}",
                        "step": idx})
            break
    return out

def pipe_violations(w):
    """judge the recorded candidate-pipeline runs against the model (contracts, reduction hypothesis, call log, result)"""
    out = []
    corr = []
    for idx, node, kind, got, want in w.get("pipe_results", []):
        if kind == "call":
            res, limit = want
            full = sorted(parse_states(got))
            exp_len = len(full) if limit is None else min(limit, len(full))
            if len(res) != len(set(res)) or not set(res) <= set(full) or len(res) != exp_len:
                out.append({"sig": "solver-call-contract", "what": f"step {idx} node {node}: a reduced-STG call returned {res} (limit {limit}); the reduced fixed points are {full}"}); break
        elif kind == "redok" and got != "1":
            out.append({"sig": "nfvs-reduction-fails", "what": f"step {idx} node {node}: for some assignment of the NFVS the reduced fixed points miss an attractor of the node (the reduction hypothesis of CandidatesFacts fails on this instance)"}); break
        elif kind == "nonegwalk" and got != "1":
            out.append({"sig": "nfvs-misses-negative-cycle", "what": f"step {idx} node {node}: the feedback vertex set returned for the node does not hit every negative cycle of the (semantic) interaction graph of the percolated network (engine contract of biodivine_aeon / node_percolated_nfvs)"}); break
        elif kind == "heurret":
            m = dict((int(a), int(b)) for a, b in (kv.split(":") for kv in got.split(","))) if got != "-" else {}
            if m != want:
                corr.append(f"step {idx} node {node}: heuristic retained set {want} vs model {m}")
        elif kind == "pipeline":
            res, log = got.split(" log=")
            want_res, want_log = want
            if log != want_log:
                corr.append(f"step {idx} node {node}: sequence of solver calls differs: code {want_log} / model {log}")
            elif want_res is not None and res != want_res:
                corr.append(f"step {idx} node {node}: pipeline result differs: code {want_res} / model {res}")
    return out, corr

def _attr_history_run(pid, tier, seed, kinds, count_q, count_t, pred, rule, cfg_gen=None, max_len=(6, 9), nmax=(6, 7), final_ops=(), pipe=False, sym=False):
    rng = random.Random(seed)
    count = _sizes(tier, count_q, count_t)
    cases = []
    while len(cases) < count:
        rules = gen_network(rng, 2, _sizes(tier, *nmax))
        n = len(rules.splitlines())
        cfg = cfg_gen(rng) if cfg_gen else {}
        h = H.gen_history(rng, n, max_len=_sizes(tier, *max_len), kinds=kinds)
        cases.append({"rules": rules, "config": cfg, "history": h, "attr": True, "pipe": pipe, "sym": sym,
                      "nomodel": any(o[0] in ("build",) for o in h)})
    pre = [c for c in load_corpus(pid) if not c.get("filter_direct")]
    for c in pre:
        c["attr"] = True; c.setdefault("pipe", pipe); c.setdefault("sym", sym)
    for c in cases:
        c["history"] = list(c["history"]) + list(final_ops)
    for c in pre + cases:
        h_ = [tuple(o) for o in c["history"]]
        if pid == "C05" and h_ and h_[-1][0] == "seeds_every" and len(h_[-1]) == 1 and not c.get("nomodel") \
                and not any(o[0] in ("cands", "seeds", "sets", "seeds_all", "sets_all", "seeds_every", "block", "scc", "aseeds", "build") for o in h_[:-1]):
            c["skiprule_model"] = True
    cases = pmap(P._fix_worker, pre + cases)
    ws = pmap(P._case_worker, cases)
    viol = harness_errors(ws, pid)
    stats = {"checked_items": 0, "with_complex_attractor": 0, "with_maa_candidate": 0, "raised_runtime": 0, "skip_nodes": 0}
    for w in ws:
        if w.get("error"):
            continue
        stats["checked_items"] += len(w["verdicts"])
        if any(len(a) > 1 for a in w["attractors"]):
            stats["with_complex_attractor"] += 1
        stats["raised_runtime"] += sum(1 for s in w["steps"] if s["real_result"] == "raised:runtime")
        msgs = pred(w)
        diffs = corr_diffs(w)
        if w.get("skiprule_model") and not diffs and w["steps"][-1]["real_result"] == "unit":
            # the code's seeds on every node vs SkipRule.query_order (ideal engine) on the model's diagram
            stats["skiprule_model_compared"] = stats.get("skiprule_model_compared", 0) + 1
            items = {it["id"]: it for it in w["steps"][-1]["meta"].get("attr", [])}
            real_counts = ",".join(str(len(items[i]["seeds"])) if i in items and "seeds" in items[i] else "-" for i in range(len(items)))
            allseeds = [x for it in items.values() for x in it.get("seeds", [])]
            real_lost = sum(1 for a in w["attractors"] if not any(x in a for x in allseeds))
            mc = dict(kv.split("=") for kv in w["skiprule_model"].split(" "))
            if mc["counts"] != real_counts or int(mc["lost"]) != real_lost:
                stats["skiprule_model_differs"] = stats.get("skiprule_model_differs", 0) + 1
                if not msgs:
                    viol.append({"property": pid, "signature": f"{pid}:correspondence:skiprule-model", "what": f"seeds per node {real_counts} (lost {real_lost}) differ from SkipRule.query_order: {w['skiprule_model']}",
                                 "case": w["case"], "failing_input": False, "theorem_or_correspondence": "SkipRule.query_order (ideal engine + documented exclusion rule) vs node_attractor_seeds on every node"})
            elif int(mc["lost"]) > 0:
                stats["skiprule_model_lost_agree"] = stats.get("skiprule_model_lost_agree", 0) + 1
        pv, pcorr = pipe_violations(w) if pipe else ([], [])
        msgs = msgs + pv
        stats["symbolic_test_calls_checked"] = stats.get("symbolic_test_calls_checked", 0) + w.get("sym_calls", 0)
        for idx_, text in w.get("sym_results", [])[:1]:
            msgs = msgs + [{"sig": "symbolic-test-contract", "what": f"step {idx_}: {text}"}]
        stats["pipeline_runs"] = stats.get("pipeline_runs", 0) + sum(1 for x in w.get("pipe_results", []) if x[2] == "pipeline")
        stats["solver_calls_checked"] = stats.get("solver_calls_checked", 0) + sum(1 for x in w.get("pipe_results", []) if x[2] == "call")
        for msg in msgs:
            viol.append({"property": pid, "signature": f"{pid}:" + msg["sig"], "what": msg["what"], "case": w["case"], "failing_input": True, "step": msg.get("step")})
        if pcorr and not msgs:
            viol.append({"property": pid, "signature": f"{pid}:correspondence:candidate-pipeline", "what": pcorr[0], "case": w["case"], "failing_input": False,
                         "theorem_or_correspondence": "Candidates.compute_candidates (replayed on the recorded solver tape) vs compute_attractor_candidates"})
        if diffs and not msgs:
            viol.append({"property": pid, "signature": f"{pid}:correspondence:" + diffs[0]["field"], "what": "model and code differ (cache flags / structure); no property-level failure exhibited on this case",
                         "case": w["case"], "diffs": diffs, "theorem_or_correspondence": "Diagram.step (q_cands/q_seeds/q_sets, expand_one, skip ops) vs biobalm.SuccessionDiagram", "failing_input": False})
    good = [w for w in ws if not w.get("error")]
    return {"evaluations": len(cases), "distinct_nontrivial": summarize(ws, lambda w: len(w["verdicts"]) > 0 and len(w["attractors"]) > 0),
            "rule": rule, "samples": [sample_of(w) for w in good[:3]], "violations": viol, "extra": {"stats": stats, "corpus_cases": len(pre)}}

# ---------------------------------------------------------------- direct differential run of the exact filter (C01 / C12)
def _filter_worker(case):
    """compute_attractors_symbolic called directly with adversarial candidate lists (several candidates per attractor,
    transient states, every order) vs Filter.compute_attractors_filter: seeds in order and sets must be identical"""
    import signal
    signal.signal(signal.SIGALRM, P._alarm); signal.alarm(P.CASE_TIMEOUT)
    try:
        from biobalm._sd_attractors.attractor_symbolic import compute_attractors_symbolic
        rules = case["rules"]
        sd = make_sd(rules, {}); nm = var_names(sd); n = len(nm); tabs = tables_of(sd)
        for op in case["history"]:
            _, _, sd = H.apply_real(sd, tuple(op), nm)
        rng = random.Random(case["seed"])
        node = rng.randrange(len(sd))
        nd = sd.node_data(node)
        if nd["skipped"]:
            return {"case": case, "msgs": [], "error": None, "skipped": True}
        space = sp2s(nd["space"], nm)
        motifs = []
        if nd["expanded"]:
            motifs = [sp2s({**nd["space"], **sd.edge_stable_motif(node, c, reduced=True)}, nm) for c in sd.node_successors(node)]
        m = Model(n, tabs)
        m.add(f"nodeattr {space} {';'.join(motifs) or '-'}")
        attrs = parse_attractors(m.run()[0])
        def inside(st, sp):
            return all(c == "*" or c == x for c, x in zip(sp, st))
        cands = []
        for a in attrs:
            for st in rng.sample(a, min(len(a), rng.choice([1, 1, 2, 3]))):
                cands.append(st)
        free = [i for i, c in enumerate(space) if c == "*"]
        for _ in range(rng.randint(0, 3)):             # arbitrary further states of the node outside the child motifs
            st = list(space)
            for i in free:
                st[i] = rng.choice("01")
            st = "".join(st)
            if not any(inside(st, mo) for mo in motifs):
                cands.append(st)
        cands = list(dict.fromkeys(cands))
        rng.shuffle(cands)
        if not cands:
            return {"case": case, "msgs": [], "error": None, "skipped": True}
        seeds_only = rng.random() < 0.4
        m = Model(n, tabs)
        m.add(f"filter {int(seeds_only)} {';'.join(motifs) or '-'} {','.join(cands)}")
        mo = m.run()[0]
        mseeds, msets = mo.split(" ")
        mseeds = parse_states(mseeds[len("seeds="):]); msets = msets[len("sets="):]
        real_seeds, real_sets = compute_attractors_symbolic(sd, node, [{v: int(c) for v, c in zip(nm, st)} for st in cands], seeds_only=seeds_only)
        rseeds = [sp2s(x, nm) for x in real_seeds]
        if real_sets is None:
            rsets = "none"
        else:
            out = []
            for vs in real_sets:
                sts = sorted("".join(str(int(mdl.to_dict()[v])) for v in sd.symbolic.network_variables()) for mdl in vs.items())
                out.append(",".join(sts))
            rsets = "/".join(out) or "-"
        msgs = []
        if rseeds != mseeds:
            # which attractor is hit how often?
            hits = [sum(1 for x in rseeds if x in a) for a in attrs]
            msgs.append(("filter-seeds", f"node {node} ({space}), candidates {cands}, seeds_only={seeds_only}: compute_attractors_symbolic returned seeds {rseeds}, the model {mseeds}; seeds per attractor of the node: {hits} (must be 1 each)"))
        elif rsets != msets:
            msgs.append(("filter-sets", f"node {node} ({space}), candidates {cands}: attractor sets differ from the model ({rsets[:200]} vs {msets[:200]})"))
        return {"case": case, "msgs": msgs, "error": None, "ncands": len(cands), "nattr": len(attrs), "multi": any(sum(1 for c in cands if c in a) > 1 for a in attrs)}
    except P.CaseTimeout:
        return {"case": case, "error": None, "timeout": True, "msgs": []}
    except Exception:
        return {"case": case, "error": traceback.format_exc()}
    finally:
        signal.alarm(0)

def filter_direct_run(pid, tier, seed, count_q, count_t, pre=()):
    rng = random.Random(seed + 77)
    cases = []
    for _ in range(_sizes(tier, count_q, count_t)):
        rules = gen_network(rng, 2, _sizes(tier, 6, 7))
        n = len(rules.splitlines())
        h = H.gen_history(rng, n, max_len=3, kinds=("expand", "bfs", "dfs", "min")) if rng.random() < 0.6 else []
        cases.append({"rules": rules, "history": [list(o) for o in h], "seed": rng.randrange(10**9)})
    cases = [dict(c, history=[list(o) for o in f["history"]]) for c, f in zip(cases, pmap(P._fix_worker, [dict(c, config={}, nomodel=True) for c in cases]))]
    cases = [dict(c) for c in pre] + cases
    ws = pmap(_filter_worker, cases)
    viol = harness_errors(ws, pid)
    for w in ws:
        if w.get("error") or w.get("timeout"):
            continue
        for sig, msg in w["msgs"][:1]:
            viol.append({"property": pid, "signature": f"{pid}:{sig}", "what": msg, "case": dict(w["case"], filter_direct=True), "failing_input": True})
    good = [w for w in ws if not w.get("error") and not w.get("timeout") and not w.get("skipped")]
    stats = {"filter_direct_cases": len(good), "filter_direct_with_several_candidates_in_one_attractor": sum(1 for w in good if w.get("multi")),
             "filter_direct_candidates_total": sum(w.get("ncands", 0) for w in good)}
    return viol, stats

@register("C14")
def run_C14(tier, seed):
    return _attr_history_run("C14", tier, seed, SKIP_KINDS, 300, 5000, lambda w: verdict_violations("C14", w),
        "random histories interleaving attractor queries (candidates with random minification options, seeds with/without symbolic fallback, sets) on arbitrary nodes with expansion, skipping, reclamation and pickling; after EVERY op every cached item of every node is judged against the brute-force attractors of that node w.r.t. its current successors (exact for ordinary nodes, sound+duplicate-free for skip nodes) by the extracted predicates of Checks.v; cache flags are compared with the model; non-trivial = at least one cached item was checked")

STRATEGIES = [("bfs", None, None, None), ("dfs", None, None, None), ("block", True, None, True, False), ("block", True, None, False, False),
              ("block", True, None, True, True), ("scc", True), ("aseeds", None), ("build",), ("min", None, None, False)]

@register("C01")
def run_C01(tier, seed):
    rng = random.Random(seed)
    count = _sizes(tier, 400, 6000)
    cases = []
    for rules in (list(all_two_var_networks()) if tier == "thorough" else list(all_two_var_networks())[::4]):
        cases.append({"rules": rules, "config": {}, "history": [("build",), ("seeds_all",)], "attr": True, "nomodel": True, "global_seeds": True})
    while len(cases) < count:
        rules = gen_network(rng, 2, _sizes(tier, 6, 7))
        st = rng.choice(STRATEGIES)
        if st[0] == "min":       # minimal-space expansion alone is not a complete strategy for attractors (MAAs may sit in stubs)
            st = ("aseeds", None)
        model_ok = st[0] in ("bfs", "dfs", "block", "aseeds", "scc")
        cases.append({"rules": rules, "config": {}, "history": [st, ("seeds_all",)], "attr": True, "nomodel": not model_ok, "global_seeds": True})
    corpus = load_corpus("C01")
    cases = [c for c in corpus if not c.get("filter_direct")] + cases
    cases = pmap(P._fix_worker, cases)
    ws = pmap(P._case_worker, cases)
    viol = harness_errors(ws, "C01")
    stats = {"strategies": {}, "with_complex_attractor": 0, "with_maa": 0, "attractors_total": 0}
    fv, fstats = filter_direct_run("C01", tier, seed, 200, 3000, pre=[c for c in corpus if c.get("filter_direct")])
    viol += fv; stats.update(fstats)
    for w in ws:
        if w.get("error"):
            continue
        hist_ = w["case"]["history"]
        si = max([i for i, o in enumerate(hist_) if o[0] in ("bfs", "dfs", "block", "scc", "aseeds", "build", "min")] or [0])   # the (last) strategy call
        st = hist_[si]
        stats["strategies"][st[0]] = stats["strategies"].get(st[0], 0) + 1
        stats["attractors_total"] += len(w["attractors"])
        if any(len(a) > 1 for a in w["attractors"]):
            stats["with_complex_attractor"] += 1
        res0 = w["steps"][si + 1]["real_result"] if len(w["steps"]) > si + 1 else "unit"
        if res0 not in ("true", "unit"):
            continue            # the strategy did not report completion
        msgs = verdict_violations("C01", w, kinds=("seeds",))
        if not msgs and w.get("global_verdict") not in (None, "ok"):
            sig = "global-" + w["global_verdict"].split(":")[0]
            detail = ""
            if sig == "global-dup" and st[0] == "scc":
                # which nodes report the duplicated attractor?  (known finding D15: the source-SCC strategy attaches
                # sub-diagrams only along one SCC at a time, so a node can be a subspace of another expanded node
                # without being its descendant; both then own the attractors of the smaller one)
                items = [it for it in w["steps"][-1]["meta"]["attr"] if it["exp"] and it.get("seeds")]
                ns, es = parse_dump(w["steps"][-1]["real"])
                desc = {i: set() for i in range(len(ns))}
                for a_, b_, _ in es:
                    desc[a_].add(b_)
                changed = True
                while changed:
                    changed = False
                    for a_ in desc:
                        new_ = set().union(*[desc[b_] for b_ in desc[a_]]) - desc[a_] if desc[a_] else set()
                        if new_:
                            desc[a_] |= new_; changed = True
                dupstate = w["global_verdict"].split(":")[1]
                att = next((a for a in w["attractors"] if dupstate in a), [])
                owners = [it for it in items if any(x in att for x in it["seeds"])]
                if len(owners) >= 2 and all(
                        any(P._subspace_s(x["space"], y["space"]) and x["id"] not in desc[y["id"]] and x["id"] != y["id"] for y in owners) or
                        any(P._subspace_s(y["space"], x["space"]) and y["id"] not in desc[x["id"]] and x["id"] != y["id"] for y in owners)
                        for x in owners):
                    sig = "scc-duplicate-in-nested-unconnected-nodes"
                    detail = f"; owners {[(o['id'], o['space']) for o in owners]} are nested spaces not connected by a path"
            msgs = [{"sig": sig, "what": f"strategy {st}: seeds of all expanded nodes vs all attractors of the network: {w['global_verdict']}{detail}"}]
        for msg in msgs:
            viol.append({"property": "C01", "signature": "C01:" + msg["sig"], "what": msg["what"], "case": w["case"], "failing_input": True})
        tv = w["steps"][si + 1].get("tape_verdict") if len(w["steps"]) > si + 1 else None
        if tv is not None:
            stats["tape_entries_checked"] = stats.get("tape_entries_checked", 0) + tv[0]
            if tv[1] and not msgs:
                what = ("attractor-seed expansion: a recorded NFVS does not hit every negative cycle of the successor it was computed for (hypothesis nfvs_log_ok of expand_aseeds_one_to_one)"
                        if st[0] == "aseeds" else
                        "block expansion: a block reported clean has a motif-avoidant attractor (hypothesis clean_log_ok of expand_block_one_to_one)")
                viol.append({"property": "C01", "signature": "C01:tape-contract:" + st[0], "what": what + f"; {tv[1]} of {tv[0]} entries", "case": w["case"], "failing_input": False,
                             "theorem_or_correspondence": "ASeedsFacts.expand_aseeds_one_to_one / BlockComplete.expand_block_one_to_one (tape contract)"})
        if not msgs and not w["case"].get("nomodel"):
            diffs = corr_diffs(w)
            if diffs:
                viol.append({"property": "C01", "signature": "C01:correspondence:" + diffs[0]["field"], "what": "model and code differ", "case": w["case"], "diffs": diffs, "failing_input": False,
                             "theorem_or_correspondence": "Diagram.step vs biobalm"})
    good = [w for w in ws if not w.get("error")]
    return {"evaluations": len(cases), "distinct_nontrivial": summarize(ws, lambda w: len(w["attractors"]) > 1 or any(len(a) > 1 for a in w["attractors"])),
            "rule": "two-variable networks (every 4th in quick, all 256 in thorough) + random/modular networks with one complete strategy out of {bfs, dfs, block (3 option sets), scc, attractor-seed expansion, build}, then seeds for every expanded node; per-node verdict (seeds one-to-one with the node's attractors outside its successors) and global verdict (all seeds one-to-one with all attractors) by Checks.check_seeds; non-trivial = more than one attractor or a complex attractor",
            "samples": [sample_of(w) for w in good[80:83]], "violations": viol, "extra": {"stats": stats}}

CFG_VALUES = [0, 1, 2, 3, 5, None]
def cfg_gen_c08(rng):
    cfg = {}
    for k in ("nfvs_size_threshold", "attractor_candidates_limit", "retained_set_optimization_threshold", "minimum_simulation_budget"):
        v = rng.choice(CFG_VALUES + [None, None])
        if v is not None:
            cfg[k] = v
    return cfg

@register("C08")
def run_C08(tier, seed):
    kinds = ("expand", "bfs", "min", "cands", "cands", "cands", "cands", "skipmin", "skip", "reclaim")
    return _attr_history_run("C08", tier, seed, kinds, 400, 8000,
        lambda w: verdict_violations("C08", w, kinds=("cands", "seeds")),
        "random short histories (partial expansion, skip nodes) followed by candidate queries on arbitrary nodes with all 4 combinations of greedy-ASP / simulation minification and every numeric configuration field drawn from {0,1,2,3,5,default}; a RuntimeError is an accepted outcome; every returned (cached) candidate list must consist of full states of the node space covering every attractor of the node outside its successors (Checks.check_cover against brute-force attractors); non-trivial = at least one list was checked",
        cfg_gen=cfg_gen_c08, max_len=(5, 8), pipe=True)

def cfg_gen_c12(rng):
    r = rng.random()
    if r < 0.35:
        return {"attractor_candidates_limit": 1, "retained_set_optimization_threshold": rng.choice([1, 1000])}
    if r < 0.5:
        return {"attractor_candidates_limit": rng.choice([2, 3])}
    return {}

@register("C12")
def run_C12(tier, seed):
    kinds = ("expand", "bfs", "dfs", "min", "sets", "sets", "sets", "seeds", "seedsfb", "seedsfb", "cands", "reclaim", "pickle", "skipmin")
    def pred(w):
        return verdict_violations("C12", w, kinds=("sets", "seeds", "skiprule"))
    # "seedsfb" = seeds with symbolic_fallback=True; rewrite after generation
    rng = random.Random(seed)
    res = _attr_history_run("C12", tier, seed, tuple(k if k != "seedsfb" else "seeds" for k in kinds), 300, 5000, pred,
        "random histories requesting attractor sets before/after seeds and candidates, after reclamation and pickling, on expanded, unexpanded and skip nodes; a third of the cases run with attractor_candidates_limit=1 so that seeds(symbolic_fallback=True) takes the fully symbolic fallback; every cached set list must be, in seed order, the complete attractors of the seeds (Checks.check_sets) and every seed list one-to-one with the brute-force attractors of the node, so fallback and default method agree through the common oracle; non-trivial = at least one cached item checked",
        cfg_gen=cfg_gen_c12, sym=True)
    fv, fstats = filter_direct_run("C12", tier, seed, 200, 3000, pre=[c for c in load_corpus("C12") if c.get("filter_direct")])
    res["violations"] += fv
    res["extra"].setdefault("stats", {}).update(fstats)
    return res

def _maa_list(w):
    mins = w["mintraps"]
    def inside(a, sp):
        return all(all(c == "*" or c == x for c, x in zip(sp, s)) for s in a)
    return [a for a in w["attractors"] if not any(inside(a, m) for m in mins)]

@register("C05")
def run_C05(tier, seed):
    kinds = ("expand", "bfs", "dfs", "min", "skipmin", "skipmin", "skip", "cands", "seeds")
    def pred(w):
        out = verdict_violations("C05", w, kinds=("seeds", "skiprule"))
        if out:
            return out
        last = w["steps"][-1]
        if last["meta"] is None:
            return out
        items = last["meta"].get("attr", [])
        ns, _ = parse_dump(last["real"])
        if any(not x["exp"] for x in ns) or any("seeds" not in it for it in items) or len(items) != len(ns):
            return out          # not every node expanded/skipped and queried: clause does not apply
        skip_op = any(o[0] in ("skipmin", "skiprem") or (o[0] == "min" and len(o) > 3 and o[3]) for o in w["case"]["history"])
        if not any(x["skip"] for x in ns) and not skip_op:
            return out
        allseeds = [s for it in items for s in it["seeds"]]
        lost = [a for a in w["attractors"] if not any(s in a for s in allseeds)]
        if lost:
            maa = _maa_list(w)
            kind = "maa" if all(a in maa for a in lost) else "non-maa"
            # does every skip node conform to the documented exclusion rule? then the loss is the known design-level defect D4
            rule_ok = all(v == "ok" for (_, _, k, v) in w["verdicts"] if k == "skiprule")
            if rule_ok and kind == "maa":
                kind = "maa-by-documented-skip-exclusion-rule"
            out.append({"sig": f"attractor-lost-{kind}", "what": f"{len(lost)} attractor(s) reported by no node after skipping, e.g. {lost[0][:4]}; nodes={[(x['space'], x['skip']) for x in ns]}"})
        elif not _maa_list(w):
            dup = [a for a in w["attractors"] if sum(1 for s in allseeds if s in a) > 1]
            if dup:
                out.append({"sig": "attractor-reported-twice-no-maa", "what": f"network without motif-avoidant attractor: attractor {dup[0][:4]} reported more than once"})
        return out
    return _attr_history_run("C05", tier, seed, kinds, 300, 5000, pred,
        "random early-stopped histories, then skip_remaining (or minimal-space expansion with skip_ignored / skip_to_minimal), then seeds on EVERY node; seeds of skip nodes must be sound and duplicate-free, of ordinary nodes exact; every brute-force attractor must be reported by some node; without motif-avoidant attractors exactly once; non-trivial = at least one cached item checked",
        final_ops=(("skiprem",), ("seeds_every",)), nmax=(6, 8))

# ---------------------------------------------------------------- candidate pipeline replay (C08)
def pipe_checks(rec, nm):
    """model commands for one recorded compute_attractor_candidates call; returns list of (kind, cmd, expectation)"""
    if rec["nfvs"] is None:
        return []            # returned before the heuristic retained set (fixed-point node / empty NFVS shortcut)
    idx = {v: i for i, v in enumerate(nm)}
    S = sp2s(rec["space"], nm)
    av = [sp2s(a, nm) for a in rec["avoid"]]
    avs = ";".join(av) or "-"
    nf = ",".join(str(idx[v]) for v in rec["nfvs"]) or "-"
    full = lambda st: sp2s({**st, **rec["space"]}, nm)
    out = []
    rinit = ",".join(f"{idx[v]}:{int(b)}" for v, b in rec["rinit"]) or "-"
    out.append(("heurret", f"heurret {S} {avs} {nf}", dict((idx[v], int(b)) for v, b in rec["rinit"])))
    if len(rec["nfvs"]) <= 6:
        out.append(("redok", f"redok {S} {avs} {nf}", "1"))
    out.append(("nonegwalk", f"nonegwalk {S} {nf}", "1"))
    for c in rec["calls"]:
        R = sp2s(dict(c["ret"]), nm)
        cav = ";".join(sp2s(a, nm) for a in c["avoid"]) or "-"
        out.append(("call", f"redfix {R} {S} {cav}", (sorted(full(x) for x in c["res"]), c["limit"])))
    cfg = rec["cfg"]
    tape = "/".join((",".join(full(x) for x in c["res"]) or "~") for c in rec["calls"]) or "-"
    log = "|".join(((",".join(f"{idx[v]}:{int(b)}" for v, b in c["ret"]) or "-") + "@" + ("-" if c["limit"] is None else str(c["limit"]))) for c in rec["calls"]) or "-"
    want_res = None
    if rec["outcome"] == "raised":
        want_res = "raised"
    elif not rec["simulation"]:
        want_res = "ok:" + (",".join(sorted(sp2s(x, nm) for x in rec["outcome"])) or "-")
    out.append(("pipeline", f"candpipe {S} {avs} {nf} {rinit} {cfg['retained_set_optimization_threshold']} {cfg['attractor_candidates_limit']} {cfg['minimum_simulation_budget']} {int(rec['greedy'])} {tape}", (want_res, log)))
    return out
