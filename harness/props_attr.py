"""Attractor properties: the implementation's candidates / seeds / sets are judged by the
extracted predicates of Checks.v against the brute-force attractors (AttractorFacts.v)."""
from __future__ import annotations
from props import *
import props as P
from props_struct import _sizes, _nontrivial_hist

ATTR_KINDS = ("expand", "bfs", "dfs", "min", "target", "cands", "seeds", "sets", "seeds", "cands", "reclaim", "pickle")
SKIP_KINDS = ATTR_KINDS + ("skipmin", "skiprem", "skip")

def verdict_violations(pid, w, kinds=("cands", "seeds", "sets"), skip_ok=True):
    out = []
    for idx, nid, kind, v in w.get("verdicts", []):
        if kind in kinds and v != "ok":
            st = w["steps"][idx]
            item = next(x for x in st["meta"]["attr"] if x["id"] == nid)
            what = {"cands": "cached candidates do not cover", "seeds": "cached seeds are not one-to-one with", "sets": "cached sets are not"}[kind]
            out.append({"sig": f"{kind}-{v.split(':')[0]}" + ("-skipnode" if item["skip"] else ""),
                        "what": f"step {idx}: node {nid} ({item['space']}, expanded={item['exp']}, skip={item['skip']}): {what} the attractors of the node w.r.t. its current successors: {v}; item={item}",
                        "step": idx})
            break
    return out

def _attr_history_run(pid, tier, seed, kinds, count_q, count_t, pred, rule, cfg_gen=None, max_len=(6, 9), nmax=(6, 7), final_ops=()):
    rng = random.Random(seed)
    count = _sizes(tier, count_q, count_t)
    cases = []
    while len(cases) < count:
        rules = gen_network(rng, 2, _sizes(tier, *nmax))
        n = len(rules.splitlines())
        cfg = cfg_gen(rng) if cfg_gen else {}
        h = H.gen_history(rng, n, max_len=_sizes(tier, *max_len), kinds=kinds)
        cases.append({"rules": rules, "config": cfg, "history": h, "attr": True})
    corpus = os.path.join(VERIF, "corpus", pid + ".jsonl")
    pre = []
    if os.path.exists(corpus):
        pre = [json.loads(l) for l in open(corpus) if l.strip()]
        for c in pre:
            c["history"] = [tuple(o) for o in c["history"]]; c["attr"] = True
    cases = pmap(P._fix_worker, cases)
    for c in cases:
        c["history"] = list(c["history"]) + list(final_ops)
    cases = pre + cases
    ws = pmap(P._case_worker, cases)
    viol = harness_errors(ws, pid)
    stats = {"checked_items": 0, "with_complex_attractor": 0, "with_maa_candidate": 0, "raised_runtime": 0, "skip_nodes": 0}
    for w in ws:
        if w.get("error"):
            continue
        stats["checked_items"] += len(w["verdicts"])
        if any(len(a) > 1 for a in w["attractors"]):
            stats["with_complex_attractor"] += 1
        stats["raised_runtime"] += sum(1 for s in w["steps"] if s["real_result"] == "raised:runtime")
        msgs = pred(w)
        diffs = corr_diffs(w)
        for msg in msgs:
            viol.append({"property": pid, "signature": f"{pid}:" + msg["sig"], "what": msg["what"], "case": w["case"], "failing_input": True, "step": msg.get("step")})
        if diffs and not msgs:
            viol.append({"property": pid, "signature": f"{pid}:correspondence:" + diffs[0]["field"], "what": "model and code differ (cache flags / structure); no property-level failure exhibited on this case",
                         "case": w["case"], "diffs": diffs, "theorem_or_correspondence": "Diagram.step (q_cands/q_seeds/q_sets, expand_one, skip ops) vs biobalm.SuccessionDiagram", "failing_input": False})
    good = [w for w in ws if not w.get("error")]
    return {"evaluations": len(cases), "distinct_nontrivial": summarize(ws, lambda w: len(w["verdicts"]) > 0 and len(w["attractors"]) > 0),
            "rule": rule, "samples": [sample_of(w) for w in good[:3]], "violations": viol, "extra": {"stats": stats, "corpus_cases": len(pre)}}

@register("C14")
def run_C14(tier, seed):
    return _attr_history_run("C14", tier, seed, SKIP_KINDS, 300, 5000, lambda w: verdict_violations("C14", w),
        "random histories interleaving attractor queries (candidates with random minification options, seeds with/without symbolic fallback, sets) on arbitrary nodes with expansion, skipping, reclamation and pickling; after EVERY op every cached item of every node is judged against the brute-force attractors of that node w.r.t. its current successors (exact for ordinary nodes, sound+duplicate-free for skip nodes) by the extracted predicates of Checks.v; cache flags are compared with the model; non-trivial = at least one cached item was checked")

STRATEGIES = [("bfs", None, None, None), ("dfs", None, None, None), ("block", True, None, True, False), ("block", True, None, False, False),
              ("block", True, None, True, True), ("scc", True), ("aseeds", None), ("build",), ("min", None, None, False)]

@register("C01")
def run_C01(tier, seed):
    rng = random.Random(seed)
    count = _sizes(tier, 400, 6000)
    cases = []
    for rules in (list(all_two_var_networks()) if tier == "thorough" else list(all_two_var_networks())[::4]):
        cases.append({"rules": rules, "config": {}, "history": [("build",), ("seeds_all",)], "attr": True, "nomodel": True, "global_seeds": True})
    while len(cases) < count:
        rules = gen_network(rng, 2, _sizes(tier, 6, 7))
        st = rng.choice(STRATEGIES)
        if st[0] == "min":       # minimal-space expansion alone is not a complete strategy for attractors (MAAs may sit in stubs)
            st = ("aseeds", None)
        model_ok = st[0] in ("bfs", "dfs")
        cases.append({"rules": rules, "config": {}, "history": [st, ("seeds_all",)], "attr": True, "nomodel": not model_ok, "global_seeds": True})
    cases = load_corpus("C01") + cases
    cases = pmap(P._fix_worker, cases)
    ws = pmap(P._case_worker, cases)
    viol = harness_errors(ws, "C01")
    stats = {"strategies": {}, "with_complex_attractor": 0, "with_maa": 0, "attractors_total": 0}
    for w in ws:
        if w.get("error"):
            continue
        st = w["case"]["history"][0]
        stats["strategies"][st[0]] = stats["strategies"].get(st[0], 0) + 1
        stats["attractors_total"] += len(w["attractors"])
        if any(len(a) > 1 for a in w["attractors"]):
            stats["with_complex_attractor"] += 1
        res0 = w["steps"][1]["real_result"] if len(w["steps"]) > 1 else "unit"
        if res0 not in ("true", "unit"):
            continue            # the strategy did not report completion
        msgs = verdict_violations("C01", w, kinds=("seeds",))
        if not msgs and w.get("global_verdict") not in (None, "ok"):
            msgs = [{"sig": "global-" + w["global_verdict"].split(":")[0], "what": f"strategy {st}: seeds of all expanded nodes vs all attractors of the network: {w['global_verdict']}"}]
        for msg in msgs:
            viol.append({"property": "C01", "signature": "C01:" + msg["sig"], "what": msg["what"], "case": w["case"], "failing_input": True})
        if not msgs and not w["case"].get("nomodel"):
            diffs = corr_diffs(w)
            if diffs:
                viol.append({"property": "C01", "signature": "C01:correspondence:" + diffs[0]["field"], "what": "model and code differ", "case": w["case"], "diffs": diffs, "failing_input": False,
                             "theorem_or_correspondence": "Diagram.step vs biobalm"})
    good = [w for w in ws if not w.get("error")]
    return {"evaluations": len(cases), "distinct_nontrivial": summarize(ws, lambda w: len(w["attractors"]) > 1 or any(len(a) > 1 for a in w["attractors"])),
            "rule": "two-variable networks (every 4th in quick, all 256 in thorough) + random/modular networks with one complete strategy out of {bfs, dfs, block (3 option sets), scc, attractor-seed expansion, build}, then seeds for every expanded node; per-node verdict (seeds one-to-one with the node's attractors outside its successors) and global verdict (all seeds one-to-one with all attractors) by Checks.check_seeds; non-trivial = more than one attractor or a complex attractor",
            "samples": [sample_of(w) for w in good[80:83]], "violations": viol, "extra": {"stats": stats}}
