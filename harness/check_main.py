"""check_main.py -- one property check: Coq stage, model build, correspondence, decision, evidence."""
from __future__ import annotations
import argparse, json, os, re, subprocess, sys, time, hashlib

VERIF = os.path.dirname(os.path.dirname(os.path.abspath(__file__)))
COQ = os.path.join(VERIF, "coq")

def sh(cmd, timeout, cwd=None):
    try:
        p = subprocess.run(cmd, shell=True, cwd=cwd, capture_output=True, text=True, timeout=timeout)
        return p.returncode, p.stdout + p.stderr
    except subprocess.TimeoutExpired as e:
        return 124, "TIMEOUT " + cmd

def strip_comments(txt):
    out, depth, i = [], 0, 0
    while i < len(txt):
        if txt.startswith("(*", i):
            depth += 1; i += 2
        elif txt.startswith("*)", i) and depth:
            depth -= 1; i += 2
        else:
            if not depth:
                out.append(txt[i])
            i += 1
    return "".join(out)

FORBIDDEN = re.compile(r"\b(Admitted|admit|Axiom|Axioms|Parameter|Parameters|Conjecture|Hypothesis|Hypotheses|Variable|Variables|Admit Obligations|bypass_check)\b|Unset Guard|Unset Positivity|Unset Universe|type-in-type|impredicative-set")

def repo_state():
    """what the correspondence run was run against: git HEAD, whether the tree is dirty, and a digest of the library sources"""
    import hashlib, glob
    h = hashlib.sha256()
    files = sorted(glob.glob("/repo/biobalm/**/*.py", recursive=True))
    for f in files:
        h.update(f.encode()); h.update(open(f, "rb").read())
    try:
        head = subprocess.run(["git", "-C", "/repo", "rev-parse", "--short", "HEAD"], capture_output=True, text=True).stdout.strip()
        dirty = bool(subprocess.run(["git", "-C", "/repo", "status", "--porcelain", "--untracked-files=no"], capture_output=True, text=True).stdout.strip())
    except Exception:
        head, dirty = "?", None
    return {"git_head": head, "working_tree_modified": dirty, "biobalm_sources": len(files), "biobalm_sources_sha256": h.hexdigest()}

def coq_stage(prop, tier):
    """full .vo build, forbidden-token audit, re-check of props/<prop>.v with Print Assumptions"""
    info = {"obligations": 0, "discharged": 0, "axioms": [], "ok": False, "log": "", "theorems": []}
    # translator tie: regenerate theories/PySrc.v from the CURRENT sources of /repo (fail closed on unsupported syntax);
    # PySrcFacts.v is then re-checked against the regenerated text by the build below
    # (theories/PySrc.v: pure helpers, tools/py2coq.py; theories/PySrcSd.v: strategy drivers, tools/py2coq_sd.py).
    # A translator failure or a broken proof about generated code counts only for the properties that import it.
    sys.path.insert(0, os.path.join(VERIF, "tools"))
    from props_spec import EXTRA_IMPORTS
    uses = EXTRA_IMPORTS.get(prop, "").split()
    rc0, out0 = sh("python3 tools/py2coq.py --no-sd 2>&1", 120, VERIF)
    rc0s, out0s = sh("python3 tools/py2coq_sd.py 2>&1", 120, VERIF)
    rc0c, out0c = sh("python3 tools/py2coq_core.py 2>&1; python3 tools/py2coq_perc.py 2>&1; python3 tools/py2coq_blocks.py 2>&1; python3 tools/py2coq_getters.py 2>&1; python3 tools/py2coq_succ.py 2>&1; python3 tools/py2coq_names.py 2>&1; python3 tools/py2coq_clingo.py 2>&1; python3 tools/py2coq_retained.py 2>&1; python3 tools/py2coq_filter.py 2>&1; python3 tools/py2coq_collect.py 2>&1", 120, VERIF)
    # a translator refuses per generated file ("FAILED <file>"): that counts for the properties importing the module
    failed_mods = set(re.findall(r"FAILED (\w+)\.v", out0 + out0s + out0c))
    translator_ok = not (failed_mods & set(uses))
    out0s += out0c
    info["translators"] = {"py2coq": rc0, "py2coq_sd": rc0s, "py2coq_core": rc0c, "refused_files": sorted(failed_mods), "modules_imported_by_this_property": uses}
    if tier == "thorough":
        sh("make -C coq clean >/dev/null 2>&1; rm -f coq/props/*.vo coq/theories/*.vo", 120, VERIF)
    # whole project with -k (keeps everything that can be built fresh), then this property's file and the extraction
    sh("cd coq && (test -f Makefile || coq_makefile -f _CoqProject -o Makefile >/dev/null 2>&1); timeout 1500 make -k -j16 >/dev/null 2>&1", 1600, VERIF)
    rc, out = sh(f"cd coq && timeout 1500 make -j16 props/{prop}.vo theories/Extract.vo 2>&1 | grep -v '^Warning' | tail -30", 1600, VERIF)
    info["log"] = ("" if translator_ok else "translator failed: " + (out0 + out0s)[-1500:] + "\n") + out[-3000:]
    build_ok = (rc == 0 and "Error" not in out and translator_ok)
    # audit
    bad = []
    for sub in ("theories", "props"):
        d = os.path.join(COQ, sub)
        for f in sorted(os.listdir(d)):
            if f.endswith(".v"):
                txt = strip_comments(open(os.path.join(d, f)).read())
                # Variable / Hypothesis are allowed inside a Section only: track the nesting
                events = [(m.start(), "open") for m in re.finditer(r"(?m)^\s*Section\s+\w+\s*\.", txt)] + \
                         [(m.start(), "close") for m in re.finditer(r"(?m)^\s*End\s+\w+\s*\.", txt)]
                events.sort()
                def depth_at(pos):
                    dpt = 0
                    for p_, k in events:
                        if p_ > pos:
                            break
                        dpt += 1 if k == "open" else -1
                    return dpt
                for m in FORBIDDEN.finditer(txt):
                    w = m.group(0)
                    if w in ("Variable", "Variables", "Hypothesis", "Hypotheses") and depth_at(m.start()) > 0:
                        continue
                    bad.append(f"{sub}/{f}: {w}")
    info["audit"] = bad
    pf = os.path.join(COQ, "props", prop + ".v")
    if not os.path.exists(pf):
        info["log"] += f"\nmissing {pf}"
        return info
    txt = strip_comments(open(pf).read())
    thms = re.findall(r"\b(?:Theorem|Lemma|Example|Corollary)\s+([A-Za-z0-9_']+)", txt)
    info["theorems"] = thms
    info["obligations"] = len(thms)
    rc2, out2 = sh(f"cd coq && timeout 600 coqc -Q theories BB -Q props BBProps props/{prop}.v", 700, VERIF)
    if rc2 == 0 and build_ok:
        info["discharged"] = len(thms)
    axioms = set()
    closed = out2.count("Closed under the global context")
    for blk in re.findall(r"Axioms:\n((?:.+\n)+?)(?=\n|\Z)", out2 + "\n"):
        for line in blk.splitlines():
            m = re.match(r"^([A-Za-z_][\w.']*)\s*:", line)
            if m:
                axioms.add(m.group(1))
    info["axioms"] = sorted(axioms)
    info["closed_theorems"] = closed
    allowed = set(json.load(open(os.path.join(VERIF, "TRUSTED_BASE.json")))["allowed_axioms"])
    info["unexpected_axioms"] = sorted(a for a in axioms if a not in allowed)
    info["ok"] = build_ok and rc2 == 0 and not bad and not info["unexpected_axioms"] and len(thms) > 0
    if rc2 != 0:
        info["log"] += "\n" + out2[-2000:]
    if tier == "thorough" and info["ok"]:
        rc3, out3 = sh(f"cd coq && timeout 1500 coqchk -silent -o -Q theories BB -Q props BBProps BBProps.{prop} 2>&1 | tail -40", 1600, VERIF)
        info["coqchk"] = out3[-3000:]
        if rc3 != 0 or "Fatal" in out3 or "Error" in out3:
            info["ok"] = False
    return info

def build_model():
    rc, out = sh("make -C ocaml 2>&1 | tail -5", 300, VERIF)
    return rc == 0 and os.path.exists(os.path.join(VERIF, "ocaml", "bbmodel")), out

def load_known():
    known = []
    p = os.path.join(VERIF, "KNOWN_FINDINGS.jsonl")
    if os.path.exists(p):
        for l in open(p):
            l = l.strip()
            if l and not l.startswith("#"):
                known.append(json.loads(l))
    return known

def main():
    ap = argparse.ArgumentParser()
    ap.add_argument("prop")
    ap.add_argument("--tier", default=os.environ.get("VERIF_TIER", "quick"))
    ap.add_argument("--replay")
    ap.add_argument("--no-coq", action="store_true", help="developer option: skip the Coq stage (never used by registered commands)")
    a = ap.parse_args()
    tier = a.tier if a.tier in ("quick", "thorough") else "quick"
    seed = int(os.environ.get("VERIF_SEED", "20260930"))
    prop = a.prop
    t0 = time.time()
    os.makedirs(os.path.join(VERIF, "evidence"), exist_ok=True)
    os.makedirs(os.path.join(VERIF, "replays"), exist_ok=True)

    # the translators, the Coq build and the OCaml build write into shared directories: checks started in parallel take turns here
    import fcntl
    lock = open(os.path.join(VERIF, ".build.lock"), "w")
    fcntl.flock(lock, fcntl.LOCK_EX)
    try:
        if a.no_coq:
            coq = {"ok": True, "obligations": 1, "discharged": 1, "axioms": [], "theorems": ["(skipped)"], "log": "", "audit": []}
        else:
            coq = coq_stage(prop, tier)
        ok_model, mlog = build_model()
    finally:
        fcntl.flock(lock, fcntl.LOCK_UN); lock.close()
    if not ok_model:
        print("model build failed:\n" + mlog)

    if not a.replay:
        import glob
        for old in glob.glob(os.path.join(VERIF, "replays", f"{prop}-*.json")):
            os.remove(old)
    import props  # harness/props.py (imports biobalm from /repo)
    runner = props.REGISTRY[prop]

    def run_only(cases):
        """run the property's own runner on exactly these cases (corpus mechanism, no generated cases)"""
        import props_struct
        saved = (props.load_corpus, props_struct._sizes)
        mods = [m for name, m in sys.modules.items() if name.startswith("props")]
        try:
            for m in mods:
                if hasattr(m, "load_corpus"):
                    m.load_corpus = lambda pid, raw=False, _c=cases: [dict(c) for c in _c if raw or "pysrc_seed" not in c]
                if hasattr(m, "_sizes"):
                    m._sizes = lambda tier, q, t: 0
            os.environ["VERIF_ONLY_CORPUS"] = "1"
            return runner("quick", seed)
        finally:
            for m in mods:
                if hasattr(m, "load_corpus"):
                    m.load_corpus = saved[0]
                if hasattr(m, "_sizes"):
                    m._sizes = saved[1]
            os.environ.pop("VERIF_ONLY_CORPUS", None)

    if a.replay:
        v = json.load(open(a.replay))
        case = v.get("case", v)
        if "history" in case:
            case["history"] = [tuple(o) for o in case["history"]]
        out = run_only([case])
        sigs = sorted({x.get("signature") for x in out["violations"]})
        print(json.dumps({"holds": not out["violations"], "signatures": sigs,
                          "what": [x.get("what") for x in out["violations"]][:3]}, indent=1, default=str))
        sys.exit(0 if not out["violations"] else 1)

    def shrink(v):
        """greedy minimisation of a failing history: drop ops while the same signature is reported"""
        case = v.get("case")
        if not isinstance(case, dict) or not isinstance(case.get("history"), list) or len(case["history"]) < 2:
            return v
        sig = v.get("signature")
        cur = dict(case); cur["history"] = [tuple(o) for o in case["history"]]
        tries = 0
        i = 0
        t_shrink = time.time()
        # a history that stalls costs a watchdog period (plus the 3x retry) per attempt: at most two attempts for those, and
        # two minutes of shrinking in any case
        budget = 2 if "did not finish" in str(v.get("what", "")) else 25
        while i < len(cur["history"]) and tries < budget and len(cur["history"]) > 1 and time.time() - t_shrink < 120:
            cand = dict(cur); cand["history"] = cur["history"][:i] + cur["history"][i + 1:]
            tries += 1
            try:
                out = run_only([cand])
            except Exception:
                break
            hit = next((x for x in out["violations"] if x.get("signature") == sig), None)
            if hit:
                cur = cand; v = dict(hit); v["shrunk_from"] = len(case["history"])
            else:
                i += 1
        return v

    res = runner(tier, seed)      # -> dict(evaluations, distinct_nontrivial, rule, samples, violations, extra)
    known = [k for k in load_known() if k.get("property") == prop and k.get("status") == "known"]
    lines, new_viol = [], []
    known_hit = {}
    for v in res["violations"]:
        sig = v.get("signature", "")
        hit = next((k for k in known if k["signature"] == sig), None)
        if hit:
            known_hit.setdefault(sig, hit)
        else:
            new_viol.append(v)
    for sig, k in known_hit.items():
        print(f"KNOWN-FINDING: property={prop} {k['description']}")
    exit_code = 0
    seen_sig = set()
    for v in new_viol:
        sig = v.get("signature", "")
        if sig in seen_sig:
            continue
        seen_sig.add(sig)
        if v.get("failing_input", True) and os.environ.get("VERIF_NO_SHRINK") != "1":
            try:
                v = shrink(v)
            except Exception:
                pass
        h = hashlib.sha1(json.dumps(v, sort_keys=True, default=str).encode()).hexdigest()[:10]
        path = os.path.join(VERIF, "replays", f"{prop}-{h}.json")
        json.dump(v, open(path, "w"), indent=1, default=str)
        tail = "" if v.get("failing_input", True) else " no-failing-input-found"
        print(f"VIOLATION property={prop} replay={path}{tail}")
        exit_code = 1
    if not coq["ok"]:
        # a proof obligation (or the audit) no longer checks and no failing input was exhibited above
        path = os.path.join(VERIF, "replays", f"{prop}-proof.json")
        json.dump({"property": prop, "broken": "coq stage", "theorems": coq.get("theorems"), "audit": coq.get("audit"),
                   "unexpected_axioms": coq.get("unexpected_axioms"), "log": coq.get("log")}, open(path, "w"), indent=1)
        if exit_code == 0:
            print(f"VIOLATION property={prop} replay={path} no-failing-input-found")
        exit_code = 1
    tb = json.load(open(os.path.join(VERIF, "TRUSTED_BASE.json")))
    ev = {
        "property_id": prop, "tier": tier, "seed": seed, "level": "proof",
        "coverage": {
            "obligations": max(coq["obligations"], 1), "discharged": coq["discharged"] if coq["discharged"] else 0,
            "checker_cmd": f"make -C coq -j16 && coqc -Q theories BB -Q props BBProps props/{prop}.v" + (" && coqchk -o BBProps." + prop if tier == "thorough" else ""),
            "trusted_base": tb["trusted_base"] + [f"axioms reported by Print Assumptions for props/{prop}.v: " + (", ".join(coq["axioms"]) or "none (closed under the global context)")],
            "theorems": coq.get("theorems", []),
            "evaluations": res["evaluations"], "distinct_nontrivial": res["distinct_nontrivial"],
            "rule": res["rule"], "samples": res["samples"][:5],
            "traces_validated_against_impl": res.get("traces_validated", res["evaluations"]),
            "disagreements_checked": len(res["violations"]),
            "exhaustive": bool(res.get("exhaustive", False)),
            **res.get("extra", {}),
            "repo_state": repo_state(),
            "translator_tie": coq.get("translators", {"skipped": "--no-coq"}),
        },
        "assumptions": tb["assumptions"] + res.get("assumptions", []),
        "wall_s": round(time.time() - t0, 2),
        "violations": len(new_viol) + (0 if coq["ok"] else 1),
    }
    if ev["coverage"]["discharged"] == 0:
        ev["coverage"]["discharged_note"] = "coq stage failed; see replay"
        ev["coverage"]["discharged"] = 0
    json.dump(ev, open(os.path.join(VERIF, "evidence", f"{prop}.json"), "w"), indent=1, default=str)
    print(f"{prop}: tier={tier} seed={seed} evaluations={res['evaluations']} distinct_nontrivial={res['distinct_nontrivial']} "
          f"theorems={coq['discharged']}/{coq['obligations']} known={len(known_hit)} new_violations={len(seen_sig)} wall={ev['wall_s']}s")
    sys.exit(exit_code)

if __name__ == "__main__":
    main()
