"""C13 (termination / bounded work), C15 (early stops, limit errors, faults), C16 (pickle / reclaim transparency)."""
from __future__ import annotations
from props import *
import props as P
from props_struct import _sizes, PLAIN
from props_attr import verdict_violations, ATTR_KINDS, SKIP_KINDS, cfg_gen_c08
import biobalm.trappist_core as TC
import biobalm.succession_diagram as SDM
import biobalm._sd_attractors.attractor_candidates as AC
import biobalm._sd_algorithms.expand_minimal_spaces as EMS
import biobalm._sd_algorithms.expand_attractor_seeds as EAS

# ---------------------------------------------------------------- C15
RELAX = {"bfs": lambda op: ("bfs", op[1], None, None), "dfs": lambda op: ("dfs", op[1], None, None),
         "min": lambda op: ("min", op[1], None, op[3]), "target": lambda op: ("target", op[1], None),
         "aseeds": lambda op: ("aseeds", None)}

class Fault(RuntimeError):
    pass

def _install_fault(counter):
    """make the k-th solver call raise (trappist / reduced-STG fixed points); returns an undo function"""
    saved = []
    def wrap(mod, name):
        orig = getattr(mod, name)
        def f(*a, **kw):
            counter["n"] += 1
            if counter["n"] == counter["k"]:
                raise Fault("injected solver failure")
            return orig(*a, **kw)
        saved.append((mod, name, orig)); setattr(mod, name, f)
    wrap(SDM, "trappist"); wrap(EMS, "trappist"); wrap(AC, "compute_fixed_point_reduced_STG"); wrap(EAS, "compute_fixed_point_reduced_STG")
    def undo():
        for mod, name, orig in saved:
            setattr(mod, name, orig)
    return undo

def _c15_worker(case):
    import signal
    signal.signal(signal.SIGALRM, P._alarm); signal.alarm(P.CASE_TIMEOUT)
    try:
        rules, config = case["rules"], case.get("config") or {}
        sd = make_sd(rules, config); nm = var_names(sd); n = len(nm); tabs = tables_of(sd)
        msgs = []
        snaps = []
        fault_at = case.get("fault")
        counter = {"n": 0, "k": fault_at or -1}
        undo = _install_fault(counter)
        try:
            for op in case["history"]:
                op = tuple(op)
                try:
                    r, tape, sd = H.apply_real(sd, op, nm)
                except Fault:
                    r = "raised:fault"
                snaps.append((op, r, dump_real(sd), P.attr_snapshot(sd, nm)))
        finally:
            undo()
        # reference data from the model
        m = Model(n, tabs)
        m.add("init"); m.add("op bfs - - -"); m.add("mintraps " + "*" * n)
        seen_cmd = {}
        chk = []
        for idx, (op, r, dmp, snap) in enumerate(snaps):
            for item in snap:
                for kind, cmd in P.attr_cmds(item):
                    if cmd is None:
                        continue
                    if cmd not in seen_cmd:
                        seen_cmd[cmd] = m.add(cmd)
                    chk.append((idx, item, kind, seen_cmd[cmd]))
        out = m.run()
        ref = abs_view(out[1].split(" ", 1)[1]); mintraps = parse_spaces(out[2])
        limit0 = config.get("max_motifs_per_node", 1) == 0
        for idx, (op, r, dmp, snap) in enumerate(snaps):
            # (1) the diagram is a valid partial diagram after every op, however it ended
            msg = pred_faithful(dmp, ref)
            if msg and not any(o[0] in ("skipmin", "skiprem") or (o[0] == "min" and o[3]) for o, *_ in snaps[: idx + 1]):
                msgs.append(("invalid-after-" + r.split(":")[0], f"after {op} -> {r}: {msg}")); break
            ns, es = parse_dump(dmp)
            # (2) return values mean what they say
            if op[0] in ("bfs", "dfs") and r == "true" and op[1] in (None, 0) and not all(x["exp"] for x in ns):     # whatever the limits were
                # only nodes reachable from the start; start = root reaches everything in plain histories
                if all(is_plain(o) for o, *_ in snaps[: idx + 1]):
                    msgs.append(("true-but-incomplete", f"{op} returned True but unexpanded nodes remain")); break
            if op[0] in ("aseeds", "min", "block") and r == "true" and (op[0] != "min" or op[1] in (None, 0)) and all(is_plain(o) or o[0] == "block" for o, *_ in snaps[: idx + 1]):
                # a complete attractor-seed / minimal-space expansion: every minimal trap space is an expanded leaf
                succ_of = {i: [] for i in range(len(ns))}
                for a_, b_, _ in es:
                    succ_of[a_].append(b_)
                leaves = sorted(x["space"] for i, x in enumerate(ns) if x["exp"] and not succ_of[i])
                if leaves != sorted(mintraps):
                    msgs.append(("true-but-minimal-traps-missing", f"{op} returned True but the expanded leaves {leaves} are not the minimal trap spaces {sorted(mintraps)}")); break
            if op[0] == "target" and r == "true" and all(is_plain(o) for o, *_ in snaps[: idx + 1]):
                # a completed target-directed expansion, whatever the limit was and whatever was expanded before: every node
                # reached from the root through relevant nodes (meets the target, not strictly inside it) is expanded
                tgt = op[1]
                def relevant(sp):
                    meets = all(a == "*" or b == "*" or a == b for a, b in zip(sp, tgt))
                    inside = all(b == "*" or a == b for a, b in zip(sp, tgt))
                    return meets and not (inside and sp != tgt)
                succ_of = {i: [] for i in range(len(ns))}
                for a_, b_, _ in es:
                    succ_of[a_].append(b_)
                seen_t, todo = {0}, [0]
                bad = None
                while todo:
                    i = todo.pop()
                    if not relevant(ns[i]["space"]):
                        continue
                    if not ns[i]["exp"]:
                        bad = i; break
                    for j in succ_of[i]:
                        if j not in seen_t:
                            seen_t.add(j); todo.append(j)
                if bad is not None:
                    msgs.append(("target-true-but-relevant-stub", f"{op} returned True but the relevant node {bad} ({ns[bad]['space']}) is still unexpanded")); break
            if op[0] in ("bfs", "dfs", "min", "target") and r == "false":
                size_lim = op[3] if op[0] in ("bfs", "dfs") else op[2]
                other_lim = op[2] if op[0] in ("bfs", "dfs") else None
                if size_lim is not None and other_lim is None and all(x["exp"] for x in ns):
                    msgs.append(("false-without-stub", f"{op} returned False (size limit) but no unexpanded node remains")); break
        for idx, item, kind, ci in chk:
            if out[ci] != "ok" and not (kind == "cands" and item["skip"]):
                msgs.append((f"cached-{kind}-wrong", f"after {snaps[idx][0]} -> {snaps[idx][1]}: node {item['id']} caches incorrect {kind}: {out[ci]}")); break
        # (3) resume: repeat the last stopped expansion with relaxed limits and compare with an uninterrupted run
        last = snaps[-1] if snaps else None
        if last and last[0][0] in RELAX and last[1] in ("false", "raised:motiflimit", "raised:fault", "raised:runtime") and all(is_plain(o) or o[0] == "aseeds" for o, *_ in snaps):
            relaxed = RELAX[last[0][0]](last[0])
            cfg2 = dict(config); cfg2.pop("max_motifs_per_node", None); cfg2.pop("attractor_candidates_limit", None)
            for k, v in SuccessionDiagram.default_config().items():
                sd.config[k] = cfg2.get(k, v)
            r2, _, sd = H.apply_real(sd, relaxed, nm)
            # uninterrupted run: same prefix under the same configuration, then the relaxed op directly
            fresh = make_sd(rules, config)
            counter2 = {"n": 0, "k": fault_at or -1}
            undo2 = _install_fault(counter2)
            try:
                for op in case["history"][:-1]:
                    try:
                        _, _, fresh = H.apply_real(fresh, tuple(op), nm)
                    except Fault:
                        pass
            finally:
                undo2()
            for k, v in SuccessionDiagram.default_config().items():
                fresh.config[k] = cfg2.get(k, v)
            r3, _, fresh = H.apply_real(fresh, relaxed, nm)
            a, b = abs_view(dump_real(sd)), abs_view(dump_real(fresh))
            if r2 != r3 or a != b:
                msgs.append(("resume-differs", f"history {case['history']} stopped with {last[1]}; repeating {relaxed} with relaxed limits gives {r2} and a diagram different from the uninterrupted run ({r3})"))
        return {"case": case, "msgs": msgs, "results": [s[1] for s in snaps], "n": n, "error": None}
    except P.CaseTimeout:
        return {"case": case, "error": None, "timeout": True, "steps": []}
    except Exception:
        return {"case": case, "error": traceback.format_exc()}
    finally:
        signal.alarm(0)

@register("C15")
def run_C15(tier, seed):
    rng = random.Random(seed)
    cases = load_corpus("C15")
    count = _sizes(tier, 400, 6000)
    kinds = ("expand", "bfs", "dfs", "min", "target", "bfs", "dfs", "cands", "seeds", "aseeds", "blockplain")
    while len(cases) < count:
        rules = gen_network(rng, 2, _sizes(tier, 6, 7))
        n = len(rules.splitlines())
        cfg = {}
        if rng.random() < 0.5:
            cfg["max_motifs_per_node"] = rng.choice([0, 1, 2, 3, 4])
        if rng.random() < 0.3:
            cfg["attractor_candidates_limit"] = rng.choice([0, 1, 2, 3])
        h = []
        for op in H.gen_history(rng, n, max_len=_sizes(tier, 4, 6), kinds=kinds):
            h.append(op)
        if rng.random() < 0.25:
            h.append(("aseeds", rng.choice([None, 1, 2, 3, 5])))
        c = {"rules": rules, "config": cfg, "history": h}
        if rng.random() < 0.4:
            c["fault"] = rng.randint(1, 6)
        cases.append(c)
    fixed = pmap(P._fix_worker, [dict(c, nomodel=True) for c in cases])
    for c, f in zip(cases, fixed):
        c["history"] = [list(o) for o in f["history"]]
        if f.get("fix_timeout"): c["fix_timeout"] = True
    ws = pmap(_c15_worker, cases)
    viol = harness_errors(ws, "C15")
    stats = {}
    for w in ws:
        if w.get("error") or w.get("timeout"):
            continue
        for r in w["results"]:
            k = r.split(":")[0] if not r.startswith("raised") else r
            stats[k] = stats.get(k, 0) + 1
        for sig, msg in w["msgs"][:1]:
            viol.append({"property": "C15", "signature": "C15:" + sig, "what": msg, "case": w["case"], "failing_input": True})
    good = [w for w in ws if not w.get("error") and not w.get("timeout")]
    return {"evaluations": len(cases), "distinct_nontrivial": len({case_hash(w["case"]) for w in good if any(r in ("false",) or r.startswith("raised") for r in w["results"])}),
            "rule": "random histories of expansions and attractor queries under size/level/stack limits, max_motifs_per_node in {0..4}, attractor_candidates_limit in {0..3}, and an injected failure of the k-th solver call (k in 1..6); after every op (returned True/False or raised) the diagram must be a valid partial diagram (expanded nodes have exactly the reference successors and motifs, stubs have none, no duplicate spaces), every cached item must be correct (Checks verdicts), True from an unrestricted bfs/dfs means everything is expanded, a size-limited False means a stub remains; the last stopped expansion is repeated with relaxed limits and must equal an uninterrupted run; non-trivial = some op stopped early or raised",
            "samples": [{"rules": w["case"]["rules"], "config": w["case"].get("config"), "history": w["case"]["history"], "fault": w["case"].get("fault"), "results": w["results"]} for w in good[:3]],
            "violations": viol, "extra": {"result_counts": stats}}

# ---------------------------------------------------------------- C16
def _c16_worker(case):
    import signal
    signal.signal(signal.SIGALRM, P._alarm); signal.alarm(P.CASE_TIMEOUT)
    try:
        rules, config = case["rules"], case.get("config") or {}
        a = make_sd(rules, config); b = make_sd(rules, config)
        nm = var_names(a); n = len(nm)
        msgs = []
        results = []
        for idx, op in enumerate(case["history"]):
            op = tuple(op)
            if idx == case["insert_at"]:
                for ins in case["insert"]:
                    _, _, b = H.apply_real(b, tuple(ins), nm)
            ra, _, a = H.apply_real(a, op, nm)
            rb, _, b = H.apply_real(b, op, nm)
            results.append(ra)
            da, db = dump_real(a), dump_real(b)
            reclaimed = any(i[0] == "reclaim" for i in case["insert"]) and idx >= case["insert_at"]
            ca, cb = canon_dump(da, ignore_attr=True), canon_dump(db, ignore_attr=True)
            if ra != rb:
                msgs.append(("result-differs", f"op {idx} {op}: untouched diagram -> {ra}, diagram with {case['insert']} inserted before op {case['insert_at']} -> {rb}")); break
            if ca != cb:
                msgs.append(("structure-differs", f"op {idx} {op}: node/edge data differ after {case['insert']} was inserted before op {case['insert_at']}")); break
            sa, sb = P.attr_snapshot(a, nm), P.attr_snapshot(b, nm)
            ka = {x["id"]: (x.get("seeds"), x.get("sets")) for x in sa}
            kb = {x["id"]: (x.get("seeds"), x.get("sets")) for x in sb}
            if ka != kb:
                msgs.append(("known-attractors-differ", f"op {idx} {op}: cached seeds/sets differ after {case['insert']} was inserted before op {case['insert_at']}: {ka} vs {kb}")); break
            if not reclaimed and {x["id"]: x.get("cands") for x in sa} != {x["id"]: x.get("cands") for x in sb}:
                msgs.append(("candidates-differ", f"op {idx} {op}: cached candidates differ after {case['insert']}")); break
        return {"case": case, "msgs": msgs, "results": results, "n": n, "error": None}
    except P.CaseTimeout:
        return {"case": case, "error": None, "timeout": True, "steps": []}
    except Exception:
        return {"case": case, "error": traceback.format_exc()}
    finally:
        signal.alarm(0)

@register("C16")
def run_C16(tier, seed):
    rng = random.Random(seed)
    cases = load_corpus("C16")
    count = _sizes(tier, 300, 5000)
    kinds = SKIP_KINDS + ("aseeds",)
    raw = []
    while len(raw) < count:
        rules = gen_network(rng, 2, _sizes(tier, 6, 7))
        n = len(rules.splitlines())
        cfg = {}
        r = rng.random()
        if r < 0.4:
            cfg["max_motifs_per_node"] = rng.choice([1, 2, 3, 4])
        elif r < 0.55:
            cfg["attractor_candidates_limit"] = rng.choice([1, 2, 3])
        elif r < 0.7:
            cfg = cfg_gen_c08(rng)
        h = [o for o in H.gen_history(rng, n, max_len=_sizes(tier, 6, 9), kinds=tuple(k for k in kinds if k not in ("reclaim", "pickle", "aseeds")))]
        raw.append({"rules": rules, "config": cfg, "history": h, "nomodel": True})
    fixed = pmap(P._fix_worker, raw)
    for f in fixed:
        h = [list(o) for o in f["history"]]
        if not h:
            continue
        ins = rng.choice([[("pickle",)], [("reclaim",)], [("reclaim",), ("pickle",)], [("pickle",), ("reclaim",)]])
        cases.append({"rules": f["rules"], "config": f["config"], "history": h, "insert_at": rng.randint(0, len(h) - 1), "insert": [list(i) for i in ins]})
    ws = pmap(_c16_worker, cases)
    viol = harness_errors(ws, "C16")
    for w in ws:
        if w.get("error") or w.get("timeout"):
            continue
        for sig, msg in w["msgs"][:1]:
            viol.append({"property": "C16", "signature": "C16:" + sig, "what": msg, "case": w["case"], "failing_input": True})
    good = [w for w in ws if not w.get("error") and not w.get("timeout")]
    return {"evaluations": len(cases), "distinct_nontrivial": len({case_hash(w["case"]) for w in good if len(w["results"]) >= 2}),
            "rule": "two real diagrams per case run the same random history (expansions with limits, skip ops, attractor queries; non-default max_motifs_per_node / candidate limits / NFVS threshold in 70% of the cases); in one of them a pickle round trip and/or reclaim_node_data is inserted at a random point; after every later op the return values (including raised errors), node ids, spaces, depths, flags, edges, motif lists and the cached seeds and sets must be identical (candidates too unless reclaimed); non-trivial = at least two ops",
            "samples": [dict(w["case"], results=w["results"]) for w in good[:3]], "violations": viol, "extra": {}}

# ---------------------------------------------------------------- C13
def _c13_worker(case):
    """counts loop back-edges (JUMP events to a smaller line) inside /repo/biobalm while a history runs"""
    import signal, sys
    signal.signal(signal.SIGALRM, P._alarm); signal.alarm(P.CASE_TIMEOUT)
    mon = sys.monitoring
    tool = 3
    counts = {"jumps": 0}
    try:
        rules, config = case["rules"], case.get("config") or {}
        sd = make_sd(rules, config); nm = var_names(sd); n = len(nm)
        def on_jump(code, src, dst):
            if not code.co_filename.startswith("/repo/biobalm"):
                return mon.DISABLE
            if dst < src:
                counts["jumps"] += 1
        try:
            mon.use_tool_id(tool, "verif-c13")
        except ValueError:
            pass
        mon.register_callback(tool, mon.events.JUMP, on_jump)
        mon.set_events(tool, mon.events.JUMP)
        worst = 0.0; results = []; per_op = []
        try:
            for op in case["history"]:
                before = counts["jumps"]
                r, _, sd = H.apply_real(sd, tuple(op), nm)
                used = counts["jumps"] - before
                budget = 2000 * (n + 1) * (2 ** n) * (len(sd) + 1)
                per_op.append((list(op), r, used, budget))
                worst = max(worst, used / budget)
                results.append(r)
        finally:
            mon.set_events(tool, 0)
            mon.register_callback(tool, mon.events.JUMP, None)
            mon.free_tool_id(tool)
        msgs = [("work-bound-exceeded", f"op {o} -> {r}: {u} loop back-edges inside biobalm, budget {b}") for o, r, u, b in per_op if u > b]
        return {"case": case, "msgs": msgs, "worst": worst, "jumps": counts["jumps"], "results": results, "n": n, "error": None}
    except P.CaseTimeout:
        try:
            mon.set_events(tool, 0); mon.free_tool_id(tool)
        except Exception:
            pass
        return {"case": case, "error": None, "timeout": True, "steps": [], "jumps": counts["jumps"]}
    except Exception:
        try:
            mon.set_events(tool, 0); mon.free_tool_id(tool)
        except Exception:
            pass
        return {"case": case, "error": traceback.format_exc()}
    finally:
        signal.alarm(0)

@register("C13")
def run_C13(tier, seed):
    rng = random.Random(seed)
    cases = load_corpus("C13")
    count = _sizes(tier, 400, 6000)
    kinds = SKIP_KINDS + ("cands", "sets", "seeds", "aseeds", "block", "scc", "control")
    raw = []
    while len(raw) < count:
        rules = gen_network(rng, 2, _sizes(tier, 6, 8))
        n = len(rules.splitlines())
        cfg = cfg_gen_c08(rng) if rng.random() < 0.4 else {}
        cfg.pop("attractor_candidates_limit", None) if rng.random() < 0.5 else None
        h = []
        for op in H.gen_history(rng, n, max_len=_sizes(tier, 6, 9), kinds=tuple(k for k in kinds if k not in ("block", "scc", "control", "aseeds"))):
            h.append(op)
        r = rng.random()
        if r < 0.15:
            h.append(("block", rng.random() < 0.7, rng.choice([None, 3, 6]), rng.random() < 0.7, rng.random() < 0.2))
        elif r < 0.25:
            h.append(("scc", rng.random() < 0.7))
        elif r < 0.35:
            h.append(("aseeds", rng.choice([None, 3, 6])))
        elif r < 0.45:
            h.append(("build",))
        # bias: candidates with both minifications off, then seeds/sets on the same node (the D6 pattern)
        if rng.random() < 0.4:
            i = rng.randint(0, 3)
            h += [("cands", i, rng.random() < 0.5, False), ("seeds", i, False), ("sets", i)]
        raw.append({"rules": rules, "config": cfg, "history": h, "nomodel": True})
    fixed = pmap(P._fix_worker, raw)
    cases += [dict({"rules": f["rules"], "config": f["config"], "history": [list(o) for o in f["history"]]}, **({"fix_timeout": True} if f.get("fix_timeout") else {})) for f in fixed]
    ws = pmap(_c13_worker, cases)
    viol = harness_errors(ws, "C13")
    worst = 0.0; total = 0
    for w in ws:
        if w.get("error") or w.get("timeout"):
            continue
        worst = max(worst, w["worst"]); total += w["jumps"]
        for sig, msg in w["msgs"][:1]:
            viol.append({"property": "C13", "signature": "C13:" + sig, "what": msg, "case": w["case"], "failing_input": True})
    good = [w for w in ws if not w.get("error") and not w.get("timeout")]
    return {"evaluations": len(cases), "distinct_nontrivial": len({case_hash(w["case"]) for w in good if w["jumps"] > 50}),
            "rule": "random histories over every public operation (all expansion strategies with limits, skip ops, candidates with every minification option, seeds, sets, build), 40% with both minifications off followed by seeds/sets on the same node; work is measured as the number of loop back-edges (sys.monitoring JUMP events to an earlier line) executed inside /repo/biobalm per operation and must stay below 2000*(n+1)*2^n*(|diagram|+1); a per-case watchdog (40 s, typical case 10 ms) turns a stall into a violation with the history as replay; non-trivial = more than 50 back-edges",
            "samples": [{"rules": w["case"]["rules"], "history": w["case"]["history"], "jumps": w["jumps"]} for w in good[:3]], "violations": viol,
            "extra": {"max_fraction_of_budget": worst, "total_back_edges": total}}
