"""child process of the C18 check: build() vs biodivine_aeon.Attractors on one repository model.
Runs in its own process so that the parent can kill it (native AEON calls ignore Python signals)."""
import sys, json
from biobalm import SuccessionDiagram
from biodivine_aeon import Attractors

f = sys.argv[1]
try:
    sd = SuccessionDiagram.from_file(f)
    n = sd.network.variable_count()
    if not sd.expand_block():
        print(json.dumps([f, "skipped", n])); sys.exit(0)
    seeds = []
    for i in sd.expanded_ids():
        seeds += sd.node_attractor_seeds(i, compute=True)
    attrs = Attractors.attractors(sd.symbolic)
    sets = [a.vertices() for a in attrs]
    hit = []
    for s in seeds:
        v = sd.symbolic.mk_subspace(s).vertices()
        k = [i for i, a in enumerate(sets) if not a.intersect(v).is_empty()]
        hit.append(k[0] if len(k) == 1 else None)
    if None in hit or sorted(hit) != list(range(len(sets))):
        print(json.dumps([f, f"build() found {len(seeds)} seeds hitting attractors {sorted(h for h in hit if h is not None)}; AEON finds {len(sets)} attractors", n]))
    else:
        print(json.dumps([f, None, n]))
except Exception as e:
    print(json.dumps([f, f"error {type(e).__name__}: {e}", 0]))
